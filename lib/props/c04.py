"""C04 - results are the matched lines, each once, in rank order (spec/FzfRank.tla, spec/FzfMerger.tla).

MC  MC_Rank (Less strict total order, Ranked the unique sorted permutation, sub-list theorem),
    MC_Merger (every partitioning x every probe sequence: Get(i) = Ranked[i], merged a prefix, cursors in range),
    MC_MergerFn (pass-through index arithmetic, partitioning) - exhaustively on small constants.
E   TLC-enumerated Key cases -> real buildResult; TLC-simulated merger behaviours -> real NewMerger/Merger.Get;
    pass-through and partition cases at the real chunk size -> real PassMerger.Get / Matcher.sliceChunks.
J   real ChunkList.Snapshot + Matcher.scan with partitions forced to 1,2,3,7,32, and the real binary `fzf -f`, on lists
    of vocabulary lines; spec/Judge_Rank.tla recomputes every distinct line's key (FzfRank!Key) from what the real
    matcher measured for that line (score, offsets) and checks the emitted order against FzfRank!Result.
Also used by c05_proc.py (sub-list restriction).
"""
import json, os, shutil, subprocess
from concurrent.futures import ThreadPoolExecutor
import vlib
from vlib import replay_cases, record_and_judge, judge, Infra, first_diff, go_env, log

HFILES = ["zz_verif_common_test.go", "zz_verif_merger_test.go"]
TLCW = int(os.environ.get("VERIF_TLC_WORKERS", "0")) or None      # cap TLC workers while developing
POOL = int(os.environ.get("VERIF_POOL", "8"))
TASKSET = shutil.which("taskset")


def harness(ctx):
    return ctx.build_harness("src", HFILES, shared=["chars"])


# ------------------------------------------------------------------------------------------------ (1) MC
def mc_part(ctx):
    q = ctx.quick
    runs = [("MC_Rank", "MC_Rank_quick.cfg" if q else "MC_Rank.cfg", ["Next"]),
            ("MC_Merger", "MC_Merger_quick.cfg" if q else "MC_Merger.cfg", ["MAddMatch", "MAddMiss", "MStart", "MGet"]),
            ("MC_Merger", "MC_MergerFn_quick.cfg" if q else "MC_MergerFn.cfg", [])]
    for module, cfg, actions in runs:
        res = ctx.mc(module, cfg, timeout=2400, coverage=bool(actions), workers=TLCW)
        for a in actions:
            n = res.action_cov.get(module + "." + a)
            if not n:
                raise Infra("vacuous model: action %s of %s has coverage %r" % (a, cfg, n))


# ------------------------------------------------------------------------------------------------ (2) E
def e_key(ctx, h):
    gen = ctx.tlc("MC_Rank", "Gen_Key_quick.cfg" if ctx.quick else "Gen_Key.cfg", label="gen-key", timeout=1800,
                  workers=TLCW or 8)
    cases = gen.json_items("CASE")
    crits = gen.json_items("CRITS")
    tiebreaks = gen.json_items("TIEBREAKS")
    if not cases or len(crits) < 1 or len(tiebreaks) < 1:
        raise Infra("Key export incomplete")
    if ctx.replay_case and ctx.replay_case.get("label") == "key":
        cases = [ctx.replay_case["case"]]

    def describe(c, exp, r):
        got = r.get("got", [])
        i = first_diff(exp, got)
        return "buildResult(text=%s offsets=%s score=%d) criteria %s: spec key %s, real points %s" % (
            json.dumps(c["text"]), c["offs"], c["score"], crits[0][i] if 0 <= i < len(crits[0]) else "?",
            exp[i] if 0 <= i < len(exp) else None, got[i] if 0 <= i < len(got) else None)
    replay_cases(ctx, h, "TestVerifKey", cases, lambda c: c["exp"], "key", env={"VERIF_CRITS": json.dumps(crits[0])},
                 describe=describe)
    ctx.cov["key_cases"] = len(cases)
    ctx.cov["key_cases_with_valid_offsets"] = sum(1 for c in cases if any(o[0] < o[1] for o in c["offs"]))
    ctx.sample({"buildResult": {"text": cases[len(cases) // 2]["text"], "offs": cases[len(cases) // 2]["offs"],
                                "score": cases[len(cases) // 2]["score"], "criteria": crits[0][3],
                                "key": cases[len(cases) // 2]["exp"][3]}})
    return sorted(tiebreaks[0], key=lambda t: (len(t), t))


def e_merger(ctx, h):
    num = ctx.pick(400, 12000)
    gen = ctx.tlc("MC_Merger", "Gen_Merger.cfg", workers=4, timeout=1800, label="gen-merger",
                  args=["-simulate", "num=%d" % num, "-depth", "26", "-seed", str(ctx.seed)])
    cases = gen.json_items("CASE")
    if len(cases) < num:
        raise Infra("TLC exported only %d merger behaviours" % len(cases))
    if ctx.replay_case and ctx.replay_case.get("label") == "merger":
        cases = [ctx.replay_case["case"]]

    # block refinement: the same behaviours with every item standing for K items of equal key and consecutive indices, so
    # that far jumps, long merged prefixes and exhausted runs occur at realistic sizes (thousands of results)
    def blown_up(c, K):
        # per item: a block of K items or a single one (so that short runs are exhausted early while others are long)
        idxs = sorted({i["index"] for l in c["lists"] for i in l})
        mode = ctx.rng.choice(["all", "mixed", "mixed", "one-list-small"])
        small_list = ctx.rng.randrange(len(c["lists"])) if c["lists"] else 0
        size, base, acc = {}, {}, 0
        for ix in idxs:
            in_small = any(i["index"] == ix for i in (c["lists"][small_list] if c["lists"] else []))
            size[ix] = K if mode == "all" else (1 if in_small else K) if mode == "one-list-small" else ctx.rng.choice([1, K])
            base[ix] = acc
            acc += size[ix]
        blk = (lambda r: list(range(base[r] + size[r] - 1, base[r] - 1, -1))) if c["tac"] else (lambda r: list(range(base[r], base[r] + size[r])))
        real, start = [], {}
        for pos, r in enumerate(c["ranked"]):
            start[pos] = len(real)
            real += blk(r)
        probes = []
        for p in c["probes"]:
            r = c["ranked"][p["i"]]
            offs = sorted({0, size[r] - 1}) if ctx.rng.random() < 0.5 else [ctx.rng.randrange(size[r])]
            for off in offs:
                i = start[p["i"]] + off
                probes.append({"i": i, "exp": real[i], "merged": 0})
        lists = [[dict(i, k=size[i["index"]], base=base[i["index"]]) for i in l] for l in c["lists"]]
        return dict(c, scale=K, lists=lists, probes=probes, ranked=real)
    small = [c for c in cases if 2 <= len(c["ranked"]) <= 6 and c["probes"]]
    ctx.rng.shuffle(small)
    cases = cases + [blown_up(c, ctx.rng.choice([1000, 1100, 1500])) for c in small[:ctx.pick(60, 900)]]

    def expected(c):
        return {"probes": c["probes"], "ranked": c["ranked"], "cursors_in_range": True}

    def describe(c, exp, r):
        return "Merger(sorted=%s tac=%s%s) runs %s probes %s: spec returns %s then whole list %s; real %s" % (
            c["sorted"], c["tac"], (", every item standing for %d items" % c["scale"]) if c.get("scale") else "",
            json.dumps([[(i["key"], i["index"]) for i in l] for l in c["lists"]]),
            [p["i"] for p in c["probes"]], [p["exp"] for p in c["probes"]], c["ranked"][:12], json.dumps(r)[:600])
    replay_cases(ctx, h, "TestVerifMerger", cases, expected, "merger", describe=describe)
    nontriv = {json.dumps([c["sorted"], c["tac"], c["lists"], [p["i"] for p in c["probes"]]]) for c in cases
               if sum(1 for l in c["lists"] if l) >= 2 and len(c["ranked"]) >= 3}
    ctx.cov["traces_validated_against_impl"] += len(cases)
    ctx.cov["merger_behaviours"] = len(cases)
    ctx.cov["merger_behaviours_multi_partition"] = len(nontriv)
    c = next((c for c in cases if c["sorted"] and sum(1 for l in c["lists"] if l) >= 2), cases[0])
    ctx.sample({"merger": {"sorted": c["sorted"], "tac": c["tac"], "runs": [[i["index"] for i in l] for l in c["lists"]],
                           "probes": [[p["i"], p["exp"]] for p in c["probes"]], "ranked": c["ranked"]}})
    return len(nontriv)


def e_fn(ctx, h):
    gen = ctx.tlc("MC_Merger", "Gen_MergerFn.cfg", workers=4, timeout=900, label="gen-mergerfn")
    cases = gen.json_items("FCASE")
    if len(cases) < 100:
        raise Infra("TLC exported only %d pass-through/partition cases" % len(cases))
    if ctx.replay_case and ctx.replay_case.get("label") == "mergerfn":
        cases = [ctx.replay_case["case"]]

    def expected(c):
        if c["kind"] == "pass":
            return {"count": c["count"], "counted": c["count"], "exp": c["exp"]}
        return {"exp": c["exp"]}

    def describe(c, exp, r):
        if c["kind"] == "pass":
            i = first_diff(exp["exp"], (r.get("got") or {}).get("exp", []))
            return "PassMerger chunks %s tac=%s: Get(%d) spec position %s, real %s" % (
                c["counts"], c["tac"], i, exp["exp"][i] if 0 <= i < len(exp["exp"]) else None, json.dumps(r)[:300])
        return "sliceChunks(%d chunks, %d partitions): spec %s, real %s" % (c["n"], c["P"], exp["exp"], json.dumps(r)[:400])
    replay_cases(ctx, h, "TestVerifMergerFn", cases, expected, "mergerfn", describe=describe)
    ctx.cov["pass_through_layouts"] = sum(1 for c in cases if c["kind"] == "pass")
    ctx.cov["partition_cases"] = sum(1 for c in cases if c["kind"] == "part")


# ------------------------------------------------------------------------------------------------ J: generators
RICH = [("a", 10), ("b", 10), ("c", 6), ("A", 2), ("B", 2), (" ", 5), ("/", 5), ("-", 2), ("_", 1), ("1", 2), (".", 1),
        ("a~", 1), ("han", 1), ("TAB", 1), ("\\", 1)]
SPECIALS = [[], [" ", "a", "b"], ["a", "b", " "], ["a", " ", "b"], ["/", "a", "b"], ["a", "b", "/"], ["c", "/", "a", "b"],
            ["c", "\\", "a", "b"], ["a", "/", "b", "/", "a", "b"], ["TAB", "a", "b", "c"], ["a~", "b"], ["han", "a", "b"],
            ["c", "c", " ", "a", "b", " ", "c"], ["a", "b", "c", " ", "a", "b"], [" ", " ", "b", "a", " "]]
QUERIES = [[["a", "b"]], [["a"]], [["b", "a"]], [["a"], ["b"]], [["a", "b"], ["c"]], [["'", "a", "b"]], [["^", "a"]],
           [["b", "$"]], [["a"], ["!", "c"]], [["!", "a"]], [["!", "a"], ["!", "b"]], [], [["a"], ["|"], ["c", "c"]],
           [["!", "a"], ["|"], ["b"]], [["A"]], [["/", "a"]], [["a", "/", "b"]], [["a", "b", "c"]], [["b"], ["^", "c"]]]
SIZES_SMALL = [0, 1, 2, 3, 7, 50, 99, 100, 101, 199, 200, 201, 250, 640]
SIZES_MID = [1000, 3199, 3200, 3201, 3300, 6400, 6399, 7001]
SIZES_BIG = [12345, 30000]


def gen_vocab(rng, n):
    """n distinct lines as symbol sequences: many short ones over {a,b,c} (lots of equal keys), longer ones over a
    richer alphabet (blanks, separators, non-ASCII), a few hand-picked shapes."""
    syms, weights = zip(*RICH)
    seen, out = set(), []

    def add(line):
        k = tuple(line)
        if k not in seen and len(out) < n:
            seen.add(k)
            out.append(list(line))
    for s in rng.sample(SPECIALS, min(len(SPECIALS), max(1, n // 5))):
        add(s)
    tries = 0
    while len(out) < n and tries < 10000:
        tries += 1
        if rng.random() < 0.5:
            add([rng.choice("abc") for _ in range(rng.randint(1, 5))])
        else:
            add([rng.choices(syms, weights)[0] for _ in range(rng.randint(1, 14))])
    rng.shuffle(out)
    return out


def gen_list(rng, nvocab, size):
    if nvocab == 0:
        return []
    style = rng.random()
    if style < 0.6:
        return [rng.randint(1, nvocab) for _ in range(size)]
    if style < 0.8:                     # long runs of the same line (whole chunks of ties)
        out = []
        while len(out) < size:
            out += [rng.randint(1, nvocab)] * rng.randint(1, 150)
        return out[:size]
    ws = [rng.random() ** 3 for _ in range(nvocab)]    # skewed
    return rng.choices(range(1, nvocab + 1), ws, k=size)


def mk_args(cfg):
    a = ["--scheme=" + cfg["scheme"]]
    if cfg["tiebreak"] != ["NONE"]:
        a.append("--tiebreak=" + ",".join(cfg["tiebreak"]))
    if not cfg["sort"]:
        a.append("+s")
    if cfg["tac"]:
        a.append("--tac")
    a.append("--algo=" + cfg["algo"])
    if cfg.get("tail"):
        a.append("--tail=%d" % cfg["tail"])
    return a


def get_tables(ctx, h, reqs, label):
    """reqs: list of {args, query, vocab}; returns the harness answers (table, lines, criteria, querystr)."""
    ipath = os.path.join(ctx.work, "tab-in-%s.ndjson" % label)
    opath = os.path.join(ctx.work, "tab-out-%s.ndjson" % label)
    vlib.write_ndjson(ipath, reqs)
    ctx.run_harness(h, "TestVerifRankTable", env={"VERIF_CASES": ipath, "VERIF_OUT": opath}, timeout=1800)
    outs = vlib.read_ndjson(opath)
    if len(outs) != len(reqs):
        raise Infra("table harness: %d requests, %d answers" % (len(reqs), len(outs)))
    for r, o in zip(reqs, outs):
        if "error" in o:
            raise Infra("real option parser rejected %s: %s" % (r["args"], o["error"]))
    return outs


def run_fzf(fzf, args, qstr, data, gomaxprocs=0, cpus=0):
    cmd = [fzf] + args + ["-f", qstr]
    if cpus and TASKSET:
        cmd = [TASKSET, "-c", "0-%d" % (cpus - 1)] + cmd
    env = go_env({"GOMAXPROCS": str(gomaxprocs)} if gomaxprocs else None)
    try:
        r = subprocess.run(cmd, input=data, capture_output=True, env=env, timeout=300)
    except subprocess.TimeoutExpired:
        raise Infra("fzf -f timed out: %s" % cmd)
    return r.returncode, r.stdout, r.stderr


def decode_out(stdout, ids):
    text = stdout.decode("utf-8", errors="replace")
    parts = text.split("\n")
    if parts and parts[-1] == "":
        parts.pop()
    return [ids.get(p, 0) for p in parts]


def judge_batches(ctx, recs, label, limit=1500000):
    """TLC judges the records in batches of bounded size; returns {record index: why}."""
    bad = {}
    start, n, size = 0, 0, 0
    batches = []
    for i, r in enumerate(recs):
        sz = 200 + len(r.get("list", ())) + len(r.get("out", ())) + len(r.get("outAll", ())) + 60 * len(r.get("table", ()))
        if size + sz > limit and i > start:
            batches.append((start, i))
            start, size = i, 0
        size += sz
    if start < len(recs):
        batches.append((start, len(recs)))
    for bi, (a, b) in enumerate(batches):
        idx, res = judge(ctx, "Judge_Rank", "Judge_Rank.cfg", recs[a:b], "%s-%d" % (label, bi), workers=TLCW, timeout=3000)
        whys = {}
        for raw in res.raw_items("MISMATCH"):
            f = raw.split(",")
            whys[int(f[0].strip()) - 1] = f[1].strip().strip('"') if len(f) > 1 else "unexplained"
        for j in idx:
            bad[a + j] = whys.get(j, "unexplained")
    return bad


def kf_of(rec, why):
    if why == "no-sort-ignored":
        return {"site": "core.Run/filter", "kind": "no-sort-ignored", "sort": False, "streaming": False}
    return None


def describe_run(rec, why):
    return ("fzf %s -f %r on %d lines (%d distinct) GOMAXPROCS=%s cpus=%s: emitted order is not FzfRank!Result "
            "[%s]; exit %s %s; first emitted %s" % (
                " ".join(rec.get("args", [])), rec.get("querystr"), len(rec.get("list", ())), len(rec.get("table", ())),
                rec.get("gomaxprocs"), rec.get("cpus"), why, rec.get("exit"), rec.get("stderr", "")[:200],
                [rec["lines"][v - 1] if v else "?" for v in rec.get("out", [])[:8]]))


class Scenario:
    def __init__(self, sid, vocab, query, lst):
        self.sid, self.vocab, self.query, self.list = sid, vocab, query, lst
        self.tables = {}
        self.data = None


def table_key(cfg):
    return (cfg["scheme"], tuple(cfg["tiebreak"]), cfg["algo"])


def fill_tables(ctx, h, jobs, label):
    """jobs: list of (scenario, cfg).  One harness call measures every missing (scenario, scheme, tiebreak, algo)."""
    need, reqs = [], []
    for sc, cfg in jobs:
        k = table_key(cfg)
        if k not in sc.tables:
            sc.tables[k] = None
            need.append((sc, k))
            reqs.append({"args": mk_args(dict(cfg, sort=True, tac=False, tail=0)), "query": sc.query, "vocab": sc.vocab})
    if reqs:
        for (sc, k), o in zip(need, get_tables(ctx, h, reqs, label)):
            sc.tables[k] = o
            if sc.data is None:
                sc.lines = o["lines"]
                sc.ids = {t: i + 1 for i, t in enumerate(o["lines"])}
                if len(sc.ids) != len(o["lines"]):
                    raise Infra("vocabulary lines are not distinct")
                sc.data = "".join(sc.lines[v - 1] + "\n" for v in sc.list).encode("utf-8")


def exec_job(fzf, sc, cfg):
    t = sc.tables[table_key(cfg)]
    args = mk_args(cfg)
    code, out, err = run_fzf(fzf, args, t["querystr"], sc.data, cfg.get("gomaxprocs", 0), cfg.get("cpus", 0))
    # any other exit status (a crash, a refusal) is recorded, not raised: the judge rejects it (exit must be 0 or 1)
    return {"kind": "run", "mode": "vocab", "query": sc.query, "sort": cfg["sort"], "tac": cfg["tac"],
            "scheme": cfg["scheme"], "tiebreak": cfg["tiebreak"], "criteria": t["criteria"], "tail": cfg.get("tail", 0),
            "table": t["table"], "list": sc.list, "out": decode_out(out, sc.ids), "exit": code,
            # not read by the judge: reproduction data
            "args": args, "querystr": t["querystr"], "gomaxprocs": cfg.get("gomaxprocs", 0), "cpus": cfg.get("cpus", 0),
            "lines": sc.lines, "sid": sc.sid, "stderr": err[-400:].decode("utf-8", "replace") if code not in (0, 1) else ""}


def run_jobs(ctx, h, jobs, label):
    """Run the real binary for every (scenario, cfg), let TLC judge, re-run rejected ones, report."""
    fzf = ctx.build_fzf()
    fill_tables(ctx, h, jobs, label)
    with ThreadPoolExecutor(max_workers=POOL) as ex:
        recs = list(ex.map(lambda j: exec_job(fzf, j[0], j[1]), jobs))
    bad = judge_batches(ctx, recs, label)
    reasons = ctx.cov.setdefault("rejections_by_reason", {})
    for why in bad.values():
        reasons[why] = reasons.get(why, 0) + 1
    if bad:
        order = sorted(bad)
        # one representative per (why, sort, tac, tiebreak-length) class is re-run and reported
        seen, pickd = set(), []
        for i in order:
            r = recs[i]
            k = (bad[i], r["sort"], r["tac"], r["tail"] > 0)
            if k not in seen and len(pickd) < 12:
                seen.add(k)
                pickd.append(i)
        re = [exec_job(fzf, jobs[i][0], jobs[i][1]) for i in pickd]
        bad2 = judge_batches(ctx, re, label + "-re")
        if not bad2:
            raise Infra("%s: %d rejected runs, none reproduced" % (label, len(bad)))
        for j, why in sorted(bad2.items()):
            r = re[j]
            case = {"label": "bin", "record": r, "why": why, "rejected_in_this_run": len(bad)}
            sig = kf_of(r, why)
            if sig:
                case["kf"] = sig
            ctx.violation(describe_run(r, why), case)
    return recs, bad


def all_cfgs(tiebreaks):
    tbs = [["NONE"]] + tiebreaks
    return [{"scheme": "default", "tiebreak": tb, "sort": s, "tac": t, "algo": a, "gomaxprocs": g}
            for tb in tbs for s in (True, False) for t in (False, True) for a in ("v2", "v1") for g in (1, 4, 16)]


def make_scenarios(ctx, rng, sizes, nq=None, base=0):
    scs = []
    for i, size in enumerate(sizes, base):
        nv = rng.choice([1, 2, 5, 12, 30, 60, 60]) if size > 0 else rng.choice([0, 5])
        nv = max(nv, 1) if size > 0 else nv
        vocab = gen_vocab(rng, nv)
        q = QUERIES[(ctx.seed * 7 + i * 5 + rng.randint(0, 2)) % len(QUERIES)] if nq is None else QUERIES[nq]
        scs.append(Scenario(i, vocab, q, gen_list(rng, len(vocab), size)))
    return scs


# ------------------------------------------------------------------------------------------------ (3) J: scan with forced partitions
def j_scan(ctx, h, tiebreaks):
    rng = ctx.rng
    n = ctx.pick(160, 2400)
    inputs = []
    sizes = SIZES_SMALL + SIZES_MID
    for i in range(n):
        size = rng.choice(sizes) if rng.random() < 0.8 else rng.randint(0, 8000)
        nv = rng.choice([1, 3, 8, 20, 60])
        vocab = gen_vocab(rng, nv)
        lst = gen_list(rng, len(vocab), size)
        tb = rng.choice([["NONE"]] + tiebreaks)
        cfg = {"scheme": rng.choice(["default", "default", "path", "history"]), "tiebreak": tb, "sort": rng.random() < 0.75,
               "tac": rng.random() < 0.5, "algo": rng.choice(["v2", "v1"]), "tail": 0}
        tail = 0
        if size > 3 and rng.random() < 0.35:
            tail = rng.choice([1, size // 2, size - 1, max(1, size - 100), max(1, size - 101), 250, 101])
        inputs.append({"args": mk_args(cfg), "query": rng.choice(QUERIES), "vocab": vocab, "list": lst,
                       "parts": [1, 2, 3, 7, 32][i % 5], "tail": tail, "tiebreak": tb,
                       "probes": [rng.randint(0, 1 << 20) for _ in range(rng.randint(0, 5))]})
    if ctx.replay_case and ctx.replay_case.get("label") == "scan":
        inputs = [ctx.replay_case["record"]]      # the record carries its own input (args, query, vocab, list, ...)

    def describe(r):
        return "Matcher.scan partitions=%s chunks=%s tail=%s sort=%s tac=%s criteria=%s on %d lines: order %s..." % (
            r.get("parts"), r.get("chunks"), r.get("tail"), r.get("sort"), r.get("tac"), r.get("criteria"),
            len(r.get("list", ())), (r.get("out") or [])[:10] or r.get("panic") or r.get("error"))
    recs = []
    step = 400
    for k in range(0, len(inputs), step):
        part = record_and_judge(ctx, h, "TestVerifScan", inputs[k:k + step], "Judge_Rank", "Judge_Rank.cfg",
                                "scan" if k == 0 else "scan-%d" % (k // step), describe=describe, workers=TLCW, timeout=3000)
        # keep only what the coverage counters need
        recs += [{"chunks": r.get("chunks", 0), "parts": r.get("parts", 1), "tail": r.get("tail", 0),
                  "distinct_out": len(set(r.get("out", ())))} for r in part]
    multi = sum(1 for r in recs if r["chunks"] > r["parts"] > 1 and r["distinct_out"] > 1)
    ctx.cov["scan_runs"] = len(recs)
    ctx.cov["scan_runs_multi_chunk_partitions"] = multi
    ctx.cov["scan_runs_tail_trimmed"] = sum(1 for r in recs if r.get("tail", 0) > 0)
    return recs


# ------------------------------------------------------------------------------------------------ (4) J: the real binary
def j_binary(ctx, h, tiebreaks):
    rng = ctx.rng
    cfgs = all_cfgs(tiebreaks)
    jobs = []
    if ctx.quick:
        scs = make_scenarios(ctx, rng, SIZES_SMALL + [1000, 3201, 7001])
        for sc in scs:
            for cfg in rng.sample(cfgs, 45):
                jobs.append((sc, dict(cfg)))
        big = make_scenarios(ctx, rng, [30000, 12345], base=1000)
        for sc in big:
            for cfg in rng.sample(cfgs, 8):
                jobs.append((sc, dict(cfg)))
    else:
        scs = make_scenarios(ctx, rng, (SIZES_SMALL + SIZES_MID) * 2)
        order = list(cfgs)
        rng.shuffle(order)
        for rep in range(3):                       # every configuration on three different scenarios
            for i, cfg in enumerate(order):
                jobs.append((scs[(i + rep * 7) % len(scs)], dict(cfg)))
        big = make_scenarios(ctx, rng, SIZES_BIG * 3, base=1000)
        for sc in big:
            for cfg in rng.sample(cfgs, 40):
                jobs.append((sc, dict(cfg)))
        scs += big
    # extra dimensions on a sample: scheme, --tail (trimmed first chunk), restricted CPU set (partition count)
    extra = []
    for sc, cfg in rng.sample(jobs, min(len(jobs), ctx.pick(120, 1500))):
        c = dict(cfg)
        r = rng.random()
        if r < 0.35:
            c["scheme"] = rng.choice(["path", "history"])
        elif r < 0.75 and len(sc.list) > 3:
            n = len(sc.list)
            c["tail"] = rng.choice([1, n // 2, n - 1, max(1, n - 100), max(1, n - 101), max(1, n - 250)])
        else:
            c["cpus"] = rng.choice([1, 2])
        extra.append((sc, c))
    jobs += extra
    nontriv, confs, sizes, nrec, nbad, shown = set(), set(), set(), 0, 0, False
    step = 2500
    for k in range(0, len(jobs), step):
        recs, bad = run_jobs(ctx, h, jobs[k:k + step], "bin" if k == 0 else "bin%d" % (k // step))
        nrec += len(recs)
        nbad += len(bad)
        for r in recs:
            if len(set(r["out"])) >= 2 and len(r["out"]) < len(r["list"]):
                nontriv.add((r["sid"], tuple(r["args"])))
            confs.add(tuple(r["args"]) + (r["gomaxprocs"], r["cpus"]))
            sizes.add(len(r["list"]))
        r = next((r for r in recs if 3 <= len(r["out"]) <= 40 and r["sort"] and len(set(r["out"])) > 2), None)
        if r and not shown:
            shown = True
            ctx.sample({"fzf": " ".join(r["args"]) + " -f " + repr(r["querystr"]),
                        "input": [r["lines"][v - 1] for v in r["list"]][:40], "stdout": [r["lines"][v - 1] for v in r["out"]]})
        if len(ctx.violations) >= 40:
            break
    ctx.cov["binary_runs"] = nrec
    ctx.cov["binary_runs_rejected"] = nbad
    ctx.cov["binary_configurations"] = len(confs)
    ctx.cov["binary_list_sizes"] = sorted(sizes)
    return len(nontriv)


def replay_bin(ctx, case):
    r = case["record"]
    fzf = ctx.build_fzf()
    ids = {t: i + 1 for i, t in enumerate(r["lines"])}
    data = "".join(r["lines"][v - 1] + "\n" for v in r["list"]).encode("utf-8")
    code, out, err = run_fzf(fzf, r["args"], r["querystr"], data, r.get("gomaxprocs", 0), r.get("cpus", 0))
    r2 = dict(r, out=decode_out(out, ids), exit=code)
    bad = judge_batches(ctx, [r2], "replay")
    for j, why in bad.items():
        case2 = {"label": "bin", "record": r2, "why": why}
        if kf_of(r2, why):
            case2["kf"] = kf_of(r2, why)
        ctx.violation(describe_run(r2, why), case2)
    return 0


# ------------------------------------------------------------------------------------------------
def run(ctx):
    ctx.replay_case = None
    if ctx.replay:
        ctx.replay_case = json.load(open(ctx.replay))["case"]
    if ctx.replay_case:                     # bin/check C04 <tier> --replay file: only the step the case came from
        h = harness(ctx)
        label = ctx.replay_case.get("label")
        if label == "bin":
            replay_bin(ctx, ctx.replay_case)
        elif label == "scan":
            j_scan(ctx, h, [])
        elif label == "key":
            e_key(ctx, h)
        elif label == "merger":
            e_merger(ctx, h)
        elif label == "mergerfn":
            e_fn(ctx, h)
        else:
            raise Infra("unknown replay label %r" % label)
        return "model_checking"
    mc_part(ctx)
    h = harness(ctx)
    tiebreaks = e_key(ctx, h)
    if len(tiebreaks) != 171:
        raise Infra("expected 171 valid --tiebreak lists from the spec, got %d" % len(tiebreaks))
    multi = nontriv = 0
    try:
        multi = e_merger(ctx, h)
        e_fn(ctx, h)
        j_scan(ctx, h, tiebreaks)
        nontriv = j_binary(ctx, h, tiebreaks)
    except Infra as ex:
        if not ctx.violations:
            raise
        # reproduced disagreements are already on record; a later infrastructure problem must not hide them
        log("infrastructure problem after %d reproduced violations, stopping early: %s" % (len(ctx.violations), ex))
        ctx.cov["stopped_early"] = str(ex)[:300]
    ctx.cov["distinct_nontrivial"] = nontriv + multi
    ctx.cov["rule"] = ("distinct (list, fzf command line) pairs run on the real binary whose output has at least two "
                       "different lines and leaves out at least one input line, plus distinct TLC-generated merger "
                       "behaviours with >= 2 non-empty partitions and >= 3 items; every one compared with "
                       "FzfRank!Result / FzfMerger!Get as evaluated by TLC")
    ctx.cov["exhaustive"] = False
    ctx.assumptions += [
        "per distinct (line, query, options) the match decision, score and match offsets are MEASURED on the real "
        "matcher by an in-package harness that builds the pattern the way core.go does (forward/withPos derived from "
        "the criteria); their correctness is C01-C03's subject. The spec computes Key/Less/Result from them and also "
        "checks Key against the real Result.points",
        "stdout identifies a line by its text: the order among identical lines is only observable in-package (scan "
        "harness, exact positions)",
        "vocabulary lines are <= 14 symbols of spec/FzfChars.tla, so the 16-bit clamps of length/offset keys are bound "
        "only through TLC-generated buildResult cases with out-of-range scores, not through 65 536-character lines",
        "--tail N is read as documented: the result is computed over the last N input lines",
        "partition count of the binary is min(8*NumCPU, 32); varied with taskset where available, forced to "
        "1,2,3,7,32 in-package",
    ]
    return "model_checking"
