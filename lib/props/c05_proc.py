"""C05, process-level half: filtering any sub-list of the input yields the full result restricted to that sub-list,
in the same relative order (spec/FzfRank.tla, theorem MC_Rank!SubListTheorem; judge spec/Judge_Rank.tla kind "sub").

run_part(ctx) is called from the C05 check.  The real binary filters a list and random sub-lists of it under every
--tiebreak setting; TLC evaluates the relation on the two observed outputs.  Two kinds of sub-lists make "the full
result restricted to the sub-list" a statement about stdout alone: arbitrary position subsets of lists without
repeated lines, and "all occurrences of a subset of the distinct lines" of lists with repetitions.
"""
import random
from concurrent.futures import ThreadPoolExecutor
from vlib import Infra
from props import c04


def run_part(ctx):
    # the specification itself has the property (exhaustively, small lists)
    ctx.mc("MC_Rank", "MC_Rank_quick.cfg" if ctx.quick else "MC_Rank.cfg", timeout=2400, workers=c04.TLCW)
    h = c04.harness(ctx)
    fzf = ctx.build_fzf()
    rng = ctx.rng
    gen = ctx.tlc("MC_Rank", "Gen_Tiebreaks.cfg", label="gen-tiebreaks", timeout=900, workers=2)
    tiebreaks = sorted(gen.json_items("TIEBREAKS")[0], key=lambda t: (len(t), t))
    if len(tiebreaks) != 171:
        raise Infra("expected 171 valid --tiebreak lists from the spec, got %d" % len(tiebreaks))
    tbs = [["NONE"]] + tiebreaks

    # scenarios: (vocab, query, list, unique?)
    nsc = ctx.pick(10, 40)
    scs = []
    for i in range(nsc):
        unique = i % 2 == 0
        nv = rng.choice([8, 25, 60]) if unique else rng.choice([5, 12, 30, 60])
        vocab = c04.gen_vocab(rng, nv)
        if unique:
            lst = list(range(1, len(vocab) + 1))
            rng.shuffle(lst)
        else:
            lst = c04.gen_list(rng, len(vocab), rng.choice([40, 150, 640, 1000, 3300] + ([] if ctx.quick else [7001, 20000])))
        q = c04.QUERIES[(ctx.seed * 3 + i * 7) % len(c04.QUERIES)]
        sc = c04.Scenario(i, vocab, q, lst)
        sc.unique = unique
        scs.append(sc)

    # jobs: every tiebreak list (x sort x tac x algo in the thorough tier), each on a rotating scenario
    cfgs = []
    for j, tb in enumerate(tbs):
        combos = [(True, False, "v2"), (True, True, "v2"), (False, False, "v2"), (False, True, "v2"),
                  (True, False, "v1"), (True, True, "v1")]
        if ctx.quick:
            combos = [combos[(j + ctx.seed) % len(combos)], combos[(j * 5 + 1 + ctx.seed) % len(combos)]]
        for (s, t, a) in combos:
            cfgs.append({"scheme": rng.choice(["default", "default", "path", "history"]) if tb == ["NONE"] else "default",
                         "tiebreak": tb, "sort": s, "tac": t, "algo": a, "gomaxprocs": rng.choice([1, 4, 16])})
    jobs = [(scs[(k * 3 + k // len(scs)) % len(scs)], cfg) for k, cfg in enumerate(cfgs)]
    c04.fill_tables(ctx, h, jobs, "c05")       # lines + query string (and the parsed options) from the real code
    nsub = ctx.pick(2, 3)

    def one(job):
        sc, cfg = job
        t = sc.tables[c04.table_key(cfg)]
        args = c04.mk_args(cfg)
        r = random.Random("%d|%d|%s" % (ctx.seed, sc.sid, " ".join(args)))
        code, out, err = c04.run_fzf(fzf, args, t["querystr"], sc.data, cfg["gomaxprocs"])
        if code not in (0, 1):
            raise Infra("fzf exited %d: %s %s" % (code, args, err[-300:]))
        out_all = c04.decode_out(out, sc.ids)
        recs = []
        for _ in range(nsub):
            frac = r.choice([0.1, 0.5, 0.9])
            if sc.unique:
                keep = [v for v in sc.list if r.random() < frac]
            else:
                chosen = {v for v in range(1, len(sc.vocab) + 1) if r.random() < frac}
                keep = [v for v in sc.list if v in chosen]
            data = "".join(sc.lines[v - 1] + "\n" for v in keep).encode("utf-8")
            code2, out2, err2 = c04.run_fzf(fzf, args, t["querystr"], data, cfg["gomaxprocs"])
            if code2 not in (0, 1):
                raise Infra("fzf exited %d: %s %s" % (code2, args, err2[-300:]))
            recs.append({"kind": "sub", "ids": sorted(set(keep)), "outAll": out_all, "outSub": c04.decode_out(out2, sc.ids),
                         "args": args, "querystr": t["querystr"], "lines": sc.lines, "list": sc.list, "sublist": keep,
                         "unique": sc.unique, "gomaxprocs": cfg["gomaxprocs"]})
        return recs
    with ThreadPoolExecutor(max_workers=c04.POOL) as ex:
        recs = [r for rs in ex.map(one, jobs) for r in rs]

    def rerun(r):
        ids = {t: i + 1 for i, t in enumerate(r["lines"])}
        d1 = "".join(r["lines"][v - 1] + "\n" for v in r["list"]).encode("utf-8")
        d2 = "".join(r["lines"][v - 1] + "\n" for v in r["sublist"]).encode("utf-8")
        _, o1, _ = c04.run_fzf(fzf, r["args"], r["querystr"], d1, r["gomaxprocs"])
        _, o2, _ = c04.run_fzf(fzf, r["args"], r["querystr"], d2, r["gomaxprocs"])
        return dict(r, outAll=c04.decode_out(o1, ids), outSub=c04.decode_out(o2, ids))
    bad = c04.judge_batches(ctx, recs, "sub")
    if bad:
        again = [rerun(recs[i]) for i in sorted(bad)[:10]]
        bad2 = c04.judge_batches(ctx, again, "sub-re")
        if not bad2:
            raise Infra("sub-list: %d rejected records, none reproduced" % len(bad))
        for j in sorted(bad2):
            r = again[j]
            ctx.violation("fzf %s -f %r: output on a sub-list (%d of %d lines) is not the full output restricted to it: "
                          "full %s... sub %s..." % (" ".join(r["args"]), r["querystr"], len(r["sublist"]), len(r["list"]),
                                                    [r["lines"][v - 1] for v in r["outAll"][:6]],
                                                    [r["lines"][v - 1] for v in r["outSub"][:6]]),
                          {"label": "sub", "record": r})
    nontriv = {(tuple(r["args"]), tuple(r["sublist"][:50]), len(r["sublist"])) for r in recs
               if len(set(r["outSub"])) >= 2 and len(r["outSub"]) < len(r["outAll"])}
    ctx.cov["sublist_pairs"] = len(recs)
    ctx.cov["sublist_pairs_nontrivial"] = len(nontriv)
    ctx.cov["sublist_rule"] = ("(list, sub-list, command line) triples run on the real binary; non-trivial = the sub-list "
                               "output has >= 2 different lines and is shorter than the full output")
    ctx.cov["sublist_tiebreak_settings"] = len(tbs)
    r = next((r for r in recs if 2 <= len(r["outSub"]) <= 6 and len(r["outAll"]) <= 14 and len(set(r["outSub"])) > 1), None)
    if r:
        ctx.sample({"fzf": " ".join(r["args"]) + " -f " + repr(r["querystr"]),
                    "full_output": [r["lines"][v - 1] for v in r["outAll"]],
                    "sublist_output": [r["lines"][v - 1] for v in r["outSub"]]})
    ctx.assumptions.append("process-level sub-list relation is judged on stdout: sub-lists are position subsets of lists "
                           "without repeated lines, or all occurrences of a subset of the distinct lines")
    return len(nontriv)
