"""C06, content side (spec/FzfItems.tla): what an item CONTAINS.  The item builder variants of core.go Run() - plain,
--ansi, --with-nth (presentation vs. the record kept for output), --read0, --header-lines / --tail / --tac - are bound at the
process boundary:
  E  Gen_Items: TLC enumerates (--with-nth form x delimiter x --ansi x block of ALL records up to L symbols x query) and
     predicts stdout + exit status of `fzf --filter`; every case is run on the batch path, the streaming path (+s) and the
     batch path without sorting (+s --sync) of the real binary and compared byte for byte.
  J  Judge_Items: random longer records / random option combinations through the same three paths, and interactive
     sessions (stream through a FIFO, list fetched through --listen, then pos(k)+accept), judged by TLC.
Two parts share this machinery:
  part "content" (C06's verdict, called from c06.py): every builder variant with the EMPTY query - number, order and content of
     the items that come out, header-lines / tail / tac - plus non-empty queries for the builders without --with-nth (what is
     searched there is the record itself);
  part "presentation" (C10's subject, lib/props/c10_items.py): --with-nth variants with non-empty queries - what is searched is
     the rendition.  C06 never alarms on a wrong rendition.
Python only builds command lines, transcodes symbols <-> bytes by table look-up and compares for equality."""
import json, os, random, subprocess, threading, time
from concurrent.futures import ThreadPoolExecutor
import chars, tmuxdrv
from vlib import judge, Infra, go_env, log

MAXW = int(os.environ.get("VERIF_MAXWORKERS", "16"))
SYM = dict(chars.SYM)
SYM.update({"SGR1": "\x1b[35m", "SGR0": "\x1b[m"})
SYM.update({str(d): str(d) for d in range(10)})
ESCS = [("\x1b[35m", "SGR1"), ("\x1b[m", "SGR0")]
SYM_OF = {v: k for k, v in SYM.items() if k not in ("SGR1", "SGR0")}
CLI_DELIM = {"": None, ",": ",", "TAB": "\t", "[,:]": "[,:]", ", ": ", ", ",+": ",+"}


def enc(syms):
    return "".join(SYM[s] for s in syms).encode("utf-8")


def dec(b):
    """bytes -> symbols by table look-up; anything outside the table denotes itself as ?hex (no record contains that)"""
    s = b.decode("utf-8", "surrogateescape")
    out, i = [], 0
    while i < len(s):
        for lit, sym in ESCS:
            if s.startswith(lit, i):
                out.append(sym)
                i += len(lit)
                break
        else:
            out.append(SYM_OF.get(s[i], "?%x" % ord(s[i])))
            i += 1
    return out


def show(syms):
    return "".join({"TAB": "\\t", "LF": "\\n", "CR": "\\r", "SGR1": "<ESC[35m>", "SGR0": "<ESC[m>"}.get(x, SYM.get(x, x)) for x in syms)


def spec_arg(sp):
    if sp["plain"]:
        return ",".join("".join(e) for e in sp["nth"])
    out = ""
    for p in sp["parts"]:
        out += {"lit": lambda: enc(p["v"]).decode("utf-8"), "nth": lambda: "{" + ",".join("".join(e) for e in p["v"]) + "}",
                "n": lambda: "{n}"}[p["k"]]()
    return out


def opt_args(o, read0):
    a = []
    if o["withNth"]:
        a.append("--with-nth=" + spec_arg(o["spec"]))
    d = CLI_DELIM[o["d"]["id"]]
    if d is not None:
        a += ["-d", d]
    if o["ansi"]:
        a.append("--ansi")
    if o["header"]:
        a.append("--header-lines=%d" % o["header"])
    if o["tail"]:
        a.append("--tail=%d" % o["tail"])
    if o["tac"]:
        a.append("--tac")
    if read0:
        a += ["--read0", "--print0"]
    return a


def filter_args(o, q, read0, path):
    a = ["-e", "+i", "--literal"]
    if not q["ext"]:
        a.append("+x")
    a += ["-f", enc(q["term"]).decode("utf-8")]
    a += {"sorted": [], "streaming": ["+s"], "sync": ["+s", "--sync"]}[path]
    return a + opt_args(o, read0)


def stream_bytes(recs, read0, unterm=False):
    d = b"\0" if read0 else b"\n"
    data = d.join(enc(r) for r in recs) + (d if recs else b"")
    if unterm and recs and recs[-1]:
        data = data[:-1]
    return data


def paths_for(q):
    # a non-empty query on the default path is ranked (C04's subject): input order needs +s
    return ["sorted", "streaming", "sync"] if not q["term"] else ["streaming", "sync"]


def run_filter(fzf, args, data, burst_seed=None):
    if burst_seed is None:
        p = subprocess.run([fzf] + args, input=data, capture_output=True, env=go_env(), timeout=300)
        return p.stdout, p.returncode, p.stderr
    rng = random.Random(burst_seed)
    rfd, wfd = os.pipe()
    p = subprocess.Popen([fzf] + args, stdin=rfd, stdout=subprocess.PIPE, stderr=subprocess.PIPE, env=go_env())
    os.close(rfd)

    def writer():
        try:
            off = 0
            while off < len(data):
                n = rng.choice([1, 2, 3, 7, 64, 1000, 70000])
                off += os.write(wfd, data[off:off + n])
        except BrokenPipeError:
            pass
        finally:
            os.close(wfd)
    w = threading.Thread(target=writer)
    w.start()
    try:
        out, err = p.communicate(timeout=300)
    except subprocess.TimeoutExpired:
        p.kill()
        out, err = p.communicate()
        err += b" [driver: timeout]"
    w.join()
    return out, p.returncode, err


def split_out(out, read0):
    toks = out.split(b"\0" if read0 else b"\n")
    res = [dec(t) for t in toks[:-1]]
    if toks[-1] != b"":
        res.append(["?unterminated"] + dec(toks[-1]))
    return res


# ------------------------------------------------------------------------------------------------ E
ANSI_PREFIX = {"site": "core.Run/with-nth builder", "kind": "ansi-token-prefix-blocks-delimiter-strip", "ansi": True, "template": True}


def kf_of(o, want, got):
    """signature of a content mismatch (which builder variant, what happened to the record)"""
    kind = "other"
    if len(want) == len(got):
        i = next((i for i in range(len(want)) if want[i] != got[i]), -1)
        if i >= 0:
            w, g = want[i], got[i]
            kind = ("trailing-white-lost" if len(g) < len(w) and w[:len(g)] == g and all(x in (" ", "TAB", "LF", "CR") for x in w[len(g):])
                    else "content-altered")
    else:
        kind = "count"
    return {"site": "core.Run/item-builder", "withNth": o["withNth"], "ansi": o["ansi"], "kind": kind}


def bind_export(ctx, fzf, part="content"):
    stem = "Gen_Items" if part == "content" else "Gen_ItemsPres"
    label = "items-export" if part == "content" else "presentation-export"
    gen = ctx.tlc("Gen_Items", ctx.pick(stem + ".cfg", stem + "_thorough.cfg"), workers=min(MAXW, ctx.pick(8, 16)),
                  timeout=3000, label="gen-" + label, env={"VERIF_SEED": ctx.seed})
    blocks = {b["id"]: b["recs"] for b in gen.json_items("BLOCK")}
    cases = gen.json_items("CASE")
    if len(cases) < 250 or not blocks:
        raise Infra("TLC exported only %d item cases / %d blocks" % (len(cases), len(blocks)))
    data = {}
    for c in cases:
        key = (c["block"], c["read0"])
        if key not in data:
            data[key] = stream_bytes(blocks[c["block"]], c["read0"])
    runs = [(c, path) for c in cases for path in paths_for(c["q"])]

    def one(cp):
        c, path = cp
        args = filter_args(c["o"], c["q"], c["read0"], path)
        out, rc, err = run_filter(fzf, args, data[(c["block"], c["read0"])])
        want = b"".join(enc(r) + (b"\0" if c["read0"] else b"\n") for r in c["out"])
        return out == want and rc == c["exit"], out, rc, err, args

    def is_dev(c, out, rc):          # explained by the specification with the named deviation AnsiTokenPrefix only
        return c["dev"] and c["outdev"] != c["out"] and rc == (0 if c["outdev"] else 1) and \
            out == b"".join(enc(r) + (b"\0" if c["read0"] else b"\n") for r in c["outdev"])

    with ThreadPoolExecutor(max_workers=8) as ex:
        results = list(ex.map(one, runs))
    reported = {}
    for (c, path), (ok, out, rc, err, args) in zip(runs, results):
        if ok:
            continue
        ok2, out, rc, err, args = one((c, path))          # alone, once more
        if ok2:
            raise Infra("%s: a mismatch did not reproduce: fzf %s on block %d" % (label, " ".join(args), c["block"]))
        got = split_out(out, c["read0"])
        dev = is_dev(c, out, rc)
        kf = dict(ANSI_PREFIX) if dev else kf_of(c["o"], c["out"], got)
        key = json.dumps([kf, path], sort_keys=True)
        if reported.get(key, 0) >= (1 if dev else 3):
            continue
        reported[key] = reported.get(key, 0) + 1
        i = next((i for i in range(min(len(got), len(c["out"]))) if got[i] != c["out"][i]), min(len(got), len(c["out"])))
        ctx.violation(label + ": %sfzf %s over block %d (%d records, all records up to the block's length): spec predicts %d output "
                      "records and exit %d, real %d and exit %d; first difference at output record %d: spec %r real %r; stderr %r" % (
                          "explained only with the deviation AnsiTokenPrefix (under --ansi a --with-nth template expression that ends "
                          "in the record's empty last field keeps its trailing delimiter): " if dev else "", " ".join(repr(a) for a in args), c["block"], len(blocks[c["block"]]), len(c["out"]), c["exit"], len(got), rc, i,
                          show(c["out"][i]) if i < len(c["out"]) else None, show(got[i]) if i < len(got) else None,
                          err.decode("utf-8", "replace")[-200:]),
                      {"label": label, "case_id": c["id"], "path": path, "args": args, "o": c["o"], "q": c["q"],
                       "read0": c["read0"], "spec_out": c["out"][max(0, i - 2):i + 3], "real_out": got[max(0, i - 2):i + 3], "kf": kf})
    ctx.cov["traces_validated_against_impl"] += len(runs)
    nrec = sum(len(blocks[c["block"]]) for c, _ in runs)
    ident = sum(1 for c in cases if c["o"]["withNth"])
    ctx.cov["item_cases" if part == "content" else "presentation_cases"] = {"cases": len(cases), "binary_runs": len(runs), "records_through_the_binary": nrec,
                             "blocks": {str(k): len(v) for k, v in blocks.items()}, "with_nth_cases": ident,
                             "ansi_cases": sum(1 for c in cases if c["o"]["ansi"]),
                             "query_cases": sum(1 for c in cases if c["q"]["term"]),
                             "rejected": sum(1 for r in results if not r[0])}
    c = next(c for c in cases if c["o"]["withNth"] and c["out"] and (part == "content" or c["q"]["term"]))
    ctx.sample({label: {"cmd": " ".join(filter_args(c["o"], c["q"], c["read0"], "streaming")), "records": len(blocks[c["block"]]),
                        "predicted_outputs": len(c["out"]), "first": show(c["out"][0])}})
    return len(cases)


# ------------------------------------------------------------------------------------------------ J
J_ALPHA = ["a", "b", "c", "A", "1", "2", " ", " ", "TAB", ",", ",", ":", "e~", "han", "A~", "-", "/", ";", "|", "SGR1", "SGR0", "CR", "."]
EXPRS = ["..", "1..", "2..", "1", "2", "-1", "-2", "..-2", "..2", "2..3", "3..", "..-1", "1..-1", "-2..", "3"]
TERMS_EXT = [["a"], ["b"], ["1"], ["e~"], ["han"], ["a", "b"], ["2"], ["A"]]
TERMS_RAW = [["a", " "], [" ", "a"], [","], ["a", ","], [" "], ["TAB"], [":", "a"], ["b", " ", " "], ["1", ":"], ["0", ":"]]
DELIMS = [{"kind": "awk", "id": ""}] * 3 + [{"kind": "str", "id": ","}, {"kind": "str", "id": ","}, {"kind": "str", "id": "TAB"},
                                            {"kind": "re", "id": "[,:]"}, {"kind": "str", "id": ", "}, {"kind": "re", "id": ",+"}]


def rnd_spec(rng):
    ex = lambda: list(rng.choice(EXPRS))
    x = rng.random()
    if x < 0.35:          # identities
        return rng.choice([{"plain": True, "nth": [list("..")], "parts": []}, {"plain": True, "nth": [list("1..")], "parts": []},
                           {"plain": True, "nth": [list("1"), list("2..")], "parts": []}, {"plain": True, "nth": [list("..-1")], "parts": []},
                           {"plain": False, "nth": [], "parts": [{"k": "nth", "v": [list("..")]}]},
                           {"plain": True, "nth": [list("1")], "parts": []}, {"plain": True, "nth": [list("1"), list("2")], "parts": []}])
    if x < 0.7:
        return {"plain": True, "nth": [ex() for _ in range(rng.choice([1, 1, 2, 3]))], "parts": []}
    parts = []
    for _ in range(rng.randint(1, 4)):
        y = rng.random()
        if y < 0.5:
            parts.append({"k": "nth", "v": [ex() for _ in range(rng.choice([1, 1, 2]))]})
        elif y < 0.7:
            parts.append({"k": "n", "v": []})
        elif not parts or parts[-1]["k"] != "lit":
            parts.append({"k": "lit", "v": [rng.choice([":", " ", "|", "a", "-", ","]) for _ in range(rng.randint(1, 2))]})
    if not any(p["k"] != "lit" for p in parts):
        parts.append({"k": "n", "v": []})
    return {"plain": False, "nth": [], "parts": parts}


def rnd_rec(rng, read0):
    alpha = J_ALPHA + (["LF", "LF"] if read0 else [])
    x = rng.random()
    if x < 0.06:
        return []
    if x < 0.14:
        return [rng.choice([" ", "TAB"] + (["LF"] if read0 else []) + ["CR"]) for _ in range(rng.randint(1, 4))]
    body = [rng.choice(alpha) for _ in range(rng.choice([1, 2, 3, 5, 8, 13, 30]))]
    if rng.random() < 0.35:
        body += [rng.choice([" ", "TAB", " ", "CR"]) for _ in range(rng.randint(1, 3))]
    if rng.random() < 0.2:
        body = [rng.choice([" ", "TAB"]) for _ in range(rng.randint(1, 2))] + body
    return body


def rnd_job(rng, seed, interactive=False, part="content"):
    read0 = rng.random() < 0.3
    n = rng.choice([0, 1, 2, 3, 5, 8, 20, 60, 99, 100, 101, 250]) if not interactive else rng.choice([6, 20, 99, 100, 101, 250])
    recs = [rnd_rec(rng, read0) for _ in range(n)]
    with_nth = rng.random() < 0.75 or part == "presentation"
    o = {"withNth": with_nth, "spec": rnd_spec(rng) if with_nth else {"plain": True, "nth": [list("..")], "parts": []},
         "d": rng.choice(DELIMS), "ansi": rng.random() < 0.35, "header": rng.choice([0, 0, 0, 1, 2, 7]),
         "tail": rng.choice([0, 0, 0, 1, 3, 50, 100, 1000]), "tac": rng.random() < 0.2 and not interactive}
    x = rng.random()
    if part == "presentation":
        x = 0.5 + x / 2             # always a non-empty query: the rendition is what is searched
    elif with_nth:
        x = 0                       # content part: under --with-nth only the empty query (the rendition is C10's subject)
    q = {"term": [], "ext": True} if (x < 0.5 or interactive) else \
        {"term": rng.choice(TERMS_EXT), "ext": True} if x < 0.75 else {"term": rng.choice(TERMS_RAW), "ext": False}
    path = "interactive" if interactive else rng.choice(paths_for(q))
    if interactive:             # the marker record the driver waits for must become an item (filter runs cover header >= stream)
        o["header"] = min(o["header"], len(recs))
    return {"seed": seed, "recs": recs, "o": o, "q": q, "read0": read0, "path": path, "unterm": rng.random() < 0.3}


def run_job(fzf, job):
    if job["path"] == "interactive":
        return run_session(fzf, job)
    args = filter_args(job["o"], job["q"], job["read0"], job["path"])
    out, rc, err = run_filter(fzf, args, stream_bytes(job["recs"], job["read0"], job["unterm"]), burst_seed=job["seed"])
    r = {k: job[k] for k in ("seed", "recs", "o", "q", "read0", "path", "unterm")}
    r.update({"out": split_out(out, job["read0"]), "exit": rc, "stderr": err.decode("utf-8", "replace")[-300:], "cmd": args,
              "idx": [], "total": -1, "pos": 0, "accepted": []})
    return r


MARKER = ["b", "b", "-", "e", "e"]


def run_session(fzf, job):
    """interactive: the stream (plus a final, terminated marker record without white space) goes through a FIFO in bursts;
    the driver waits for the EVENT 'reading finished and the marker is the last list entry', fetches the list, posts
    pos(k)+accept and collects what fzf printed."""
    ctx = job["ctx"]
    rng = random.Random(job["seed"])
    recs = job["recs"] + [MARKER]
    data = stream_bytes(recs, job["read0"])
    args = opt_args(job["o"], job["read0"])
    fifo = os.path.join(ctx.work, "items-fifo-%d-%d" % (os.getpid(), job["seed"]))
    if os.path.exists(fifo):
        os.unlink(fifo)
    os.mkfifo(fifo)
    s = tmuxdrv.Session(ctx, fzf, args, input_cmd="cat '%s'" % fifo, width=100, height=30)
    st, note, accepted, status, pos = None, "", [], -1, 0
    try:
        deadline = time.time() + 60
        wfd = None
        while wfd is None:
            try:
                wfd = os.open(fifo, os.O_WRONLY | os.O_NONBLOCK)
            except OSError:
                if time.time() > deadline:
                    raise Infra("items session: nobody opened the FIFO")
                time.sleep(0.02)
        os.set_blocking(wfd, True)

        def writer():
            try:
                off = 0
                while off < len(data):
                    off += os.write(wfd, data[off:off + rng.choice([1, 3, 17, 200, 5000])])
            except BrokenPipeError:
                pass
            finally:
                os.close(wfd)
        w = threading.Thread(target=writer)
        w.start()
        s.wait_listening()
        marker = enc(MARKER).decode("utf-8")
        deadline = time.time() + 60
        while True:
            try:
                st = s.get(limit=1000000)
            except Exception as ex:
                st, note = None, str(ex)
            if st and not st["reading"] and st["matchCount"] == st["totalCount"] and st["matches"] and st["matches"][-1]["text"] == marker:
                break
            if time.time() > deadline:
                note = "driver: the final list never showed the marker record (%s)" % note
                break
            time.sleep(0.02)
        w.join(timeout=30)
        if st and st["matches"]:
            pos = 1 + job["seed"] % len(st["matches"])
            s.post("pos(%d)+accept" % pos, final=True)
            status, out = s.wait_exit(timeout=30)
            accepted = split_out(out, job["read0"])
    finally:
        s.close()
        try:
            os.unlink(fifo)
        except OSError:
            pass
    if st is None:
        raise Infra("items session: --listen never answered (%s)" % note)
    r = {k: job[k] for k in ("seed", "o", "q", "read0", "path", "unterm")}
    r.update({"recs": recs, "out": [dec(m["text"].encode("utf-8", "surrogateescape")) for m in st["matches"]],
              "idx": [m["index"] for m in st["matches"]], "total": st["totalCount"], "pos": pos, "accepted": accepted,
              "exit": status, "stderr": note, "cmd": args + ["(interactive)"]})
    return r


def run_session_retry(fzf, job):
    try:
        return run_session(fzf, job)
    except Infra as ex:
        log("items session set-up failed, retrying once:", ex)
        return run_session(fzf, job)


def describe(r):
    return "fzf %s on %d records (read0=%s, last unterminated=%s): printed %d records, exit %s; records %s ... out %s ... idx %s accepted(pos %s) %s stderr %r" % (
        " ".join(repr(a) for a in r["cmd"]), len(r["recs"]), r["read0"], r["unterm"], len(r["out"]), r["exit"],
        [show(x) for x in r["recs"][:6]], [show(x) for x in r["out"][:6]], r["idx"][:6], r["pos"], [show(x) for x in r["accepted"]], r["stderr"])


def judge_jobs(ctx, fzf, jobs, label, par):
    runner = lambda j: (run_session_retry if j["path"] == "interactive" else run_job)(fzf, j)
    with ThreadPoolExecutor(max_workers=par) as ex:
        recs = list(ex.map(runner, jobs))
    bad, res = judge(ctx, "Judge_Items", "Judge_Items.cfg", recs, label, timeout=1500, workers=min(MAXW, ctx.pick(8, 16)))
    kinds = {}
    for x in res.raw_items("MISMATCH"):
        parts = [t.strip().strip('"') for t in x.split(",")]
        kinds[int(parts[0]) - 1] = parts[1]
    reported = {}
    for i in sorted(bad, key=lambda i: len(recs[i]["recs"])):
        dev = kinds.get(i) == "ansi_token_prefix"
        key = "dev" if dev else "other"
        if reported.get(key, 0) >= (1 if dev else 8):
            continue
        r1 = runner(jobs[i])
        bad1, res1 = judge(ctx, "Judge_Items", "Judge_Items.cfg", [r1], label + "-re", timeout=600, workers=1)
        if not bad1:
            raise Infra("%s: rejection did not reproduce: %s" % (label, describe(recs[i])))
        dev = [t.strip().strip('"') for t in res1.raw_items("MISMATCH")[0].split(",")][1] == "ansi_token_prefix"
        reported[key] = reported.get(key, 0) + 1
        job = {k: v for k, v in jobs[i].items() if k != "ctx"}
        kf = dict(ANSI_PREFIX) if dev else {"site": "core.Run/item-builder", "withNth": r1["o"]["withNth"], "ansi": r1["o"]["ansi"],
                                            "kind": "judged"}
        ctx.violation("%s: spec rejects what the real binary did (%s): %s" % (
            label, "explained only with the deviation AnsiTokenPrefix" if dev else "unexplained", describe(r1)),
            {"label": label, "job": job, "record": {k: (v if k not in ("recs", "out", "idx") else v[:40]) for k, v in r1.items()}, "kf": kf})
    return recs, bad


def bind_random(ctx, fzf, part="content"):
    rng = random.Random(ctx.seed * 65537 + (11 if part == "content" else 12))
    jobs = [rnd_job(rng, ctx.seed * 1000003 + i, part=part) for i in range(ctx.pick(400, 8000))]
    recs, bad = judge_jobs(ctx, fzf, jobs, "items-random" if part == "content" else "presentation-random", 8)
    st = {"runs": len(recs), "rejected": len(bad), "records": sum(len(r["recs"]) for r in recs)}
    for r in recs:
        for k in ("path",):
            st["%s=%s" % (k, r[k])] = st.get("%s=%s" % (k, r[k]), 0) + 1
    st["with_nth"] = sum(1 for r in recs if r["o"]["withNth"])
    st["ansi"] = sum(1 for r in recs if r["o"]["ansi"])
    st["read0"] = sum(1 for r in recs if r["read0"])
    st["with_query"] = sum(1 for r in recs if r["q"]["term"])
    st["records_ending_in_white_space"] = sum(1 for r in recs for x in r["recs"] if x and x[-1] in (" ", "TAB", "CR", "LF"))
    ctx.cov["item_random_runs" if part == "content" else "presentation_random_runs"] = st
    return sum(1 for r in recs if len(r["recs"]) >= 2)


def bind_sessions(ctx, fzf):
    rng = random.Random(ctx.seed * 8191 + 5)
    jobs = []
    for i in range(ctx.pick(10, 120)):
        j = rnd_job(rng, ctx.seed * 15485863 + i, interactive=True)
        j["ctx"] = ctx
        jobs.append(j)
    recs, bad = judge_jobs(ctx, fzf, jobs, "items-tty", 4)
    ctx.cov["item_sessions"] = {"runs": len(recs), "rejected": len(bad), "with_nth": sum(1 for r in recs if r["o"]["withNth"]),
                                "accepted": sum(1 for r in recs if r["accepted"])}
    r = recs[0]
    ctx.sample({"items-interactive": {"cmd": " ".join(r["cmd"]), "records": len(r["recs"]), "listed": len(r["out"]), "pos": r["pos"],
                                      "accepted": [show(x) for x in r["accepted"]]}})
    return len(recs)


def replay(ctx, fzf, case):
    label = case.get("label")
    if label in ("items-export", "presentation-export"):
        raise Infra("export cases are re-derived by TLC: run the check with the same seed (C06: VERIF_C06_ONLY=items)")
    job = dict(case["job"])
    if job["path"] == "interactive":
        job["ctx"] = ctx
    judge_jobs(ctx, fzf, [job], label, 1)
