"""C03 - scores follow the documented scoring model (spec/FzfAlgo.tla scoring part, spec/FzfAlgoV2.tla)."""
import json, os
import vlib
from vlib import Infra
import props.algo_common as ac


FILLS = ["zero", "max"]   # a poisoned slab too: the recurrence reads only cells it has written


def kf_rec(r):
    if r["kind"] == "v2" and r["fwd"] and len(r["p"]) == 1 and r["s"] >= 0:
        return {"finding": "F13", "fn": "FuzzyMatchV2", "field": "score", "forward": True, "patlen": 1}
    return None


def run(ctx):
    if ctx.replay:
        return ac.replay(ctx, "score", FILLS, kf_rec=kf_rec)
    # (1) design theorems: the DP score is the score of an existing alignment, never above the best one; V1 and the
    #     exact family are scored as the occurrence they report (by construction: SpanResult)
    ac.model_check(ctx, ["MC_AlgoS_quick.cfg"] if ctx.quick else ["MC_AlgoS.cfg", "MC_AlgoS_p3.cfg"], workers=ac.par(ctx) * 2)
    h = ac.harness(ctx)
    # (2) E: score of every matcher on the exhaustive enumeration, all variants
    cfgs = ["Gen_Algo_quick.cfg", "Gen_Algo_quick4.cfg"] if ctx.quick else (
        ["Gen_Algo_t5a%d.cfg" % a for a in range(1, 7)] + ["Gen_Algo_p3a%d.cfg" % a for a in range(1, 5)])
    stats, counts, total_cases, total_calls = {}, {}, 0, 0
    tpath = None
    for cfg in cfgs:
        label = cfg.replace(".cfg", "").replace("Gen_Algo_", "e-")
        cpath, tpath, n = ac.export_cases(ctx, cfg, label, workers=ac.par(ctx) * 2, stats=stats)
        if ctx.replay:
            rc = json.load(open(ctx.replay))["case"]
            if "case" in rc:
                with open(cpath, "w") as fh:
                    fh.write(json.dumps(rc["case"]) + "\n")
        summary, recs = ac.run_cases(ctx, h, cpath, tpath, "score", FILLS, label)
        ac.check_table(ctx, summary, label)
        total_cases += summary["cases"]
        total_calls += summary["calls"]
        for k, v in ac.report_bad(ctx, h, cpath, tpath, "score", FILLS, label, [(r["line"], r["bad"]) for r in recs]).items():
            counts[k] = counts.get(k, 0) + v
        os.remove(cpath)
        if ctx.replay:
            break
    ctx.cov["evaluations"] += total_calls
    ctx.cov["traces_validated_against_impl"] += total_cases
    # (3) J: random texts <= 64 runes, patterns <= 8: score of the real matcher = score TLC computes with the plain
    #     whole-line recurrence / the scored occurrence
    fo = ac.Folder(tpath)
    ins = ac.j_inputs(ctx, fo, ctx.pick(150, 1500), 64, 8, "score")
    # single-character patterns in both directions get their own share (fast path of FuzzyMatchV2)
    ins += [dict(r, p=r["p"][:1]) for r in ac.j_inputs(ctx, fo, ctx.pick(40, 400), 40, 1, "score", kinds=["v2", "v1", "exact"])]
    _, cj = ac.record_and_judge(ctx, h, ins, tpath, "j-score", kf=kf_rec)
    ctx.cov["distinct_nontrivial"] = stats.get("match_v2", 0)
    ctx.cov["exhaustive"] = True
    ctx.cov["rule"] = ("E: the enumeration of C02 (texts <= %s over 6 class-covering alphabets x patterns <= %s x cs x norm x 3 schemes); "
                       "the Score of every matcher / direction / representation / slab / withPos variant must equal the score TLC "
                       "computed (V2: plain whole-line recurrence; V1 / exact / prefix / suffix: AlignScore of the reported "
                       "occurrence; boundary / equal: closed formula); non-trivial = inputs with a fuzzy match.  J: random texts <= 64 "
                       "runes, patterns <= 8, score equality judged by TLC." % (ctx.pick("3-4 (6 over {a,b})", "5 (8 over {a,b})"),
                                                                                 ctx.pick("2 (3)", "2 (3 with texts <= 4)")))
    ctx.cov["enumerated_inputs"] = stats.get("cases", 0)
    ctx.cov["matches_by_kind"] = {k: stats.get("match_" + k, 0) for k in ac.KINDS}
    ctx.cov["v2_alignment_differs_from_v1"] = stats.get("v2_differs_from_v1", 0)
    ctx.cov["mismatch_classes"] = counts
    ctx.cov["j_counts"] = cj
    for s in stats.get("samples", []):
        ctx.sample(s)
    ctx.assumptions += ["scores stay far below int16 saturation: patterns <= 12 characters, at most 36 points each",
                        "'never exceeds the best existing alignment' is a theorem about the recurrence, checked by TLC on the "
                        "bounded enumeration (V2IsSomeAlignment / V2NotAboveBest); equality with the recurrence is what binds the code",
                        "boundary and equal terms use closed formulas (code-derived, ranking documented in the man page)"]
    return "model_checking"
