"""C18 at process level: chains of real fzf sessions sharing one --history file; events for spec/Trace_History.tla."""
import os, re, json
import tmuxdrv
from vlib import Infra

QUERIES = ["a", "b", "c", "ab", "b c", "x1", " a", "b ", " "]


def tokens(data):
    """File bytes -> token sequence (entries and newlines); None (missing file) -> ["MISSING"]."""
    if data is None:
        return ["MISSING"]
    out = []
    for part in re.split("(\n)", data):
        if part != "":
            out.append(part)
    return out


def read_file(path):
    try:
        with open(path, encoding="utf-8") as fh:
            return fh.read()
    except FileNotFoundError:
        return None


DIRECTED = [
    # come back to an edited entry at the oldest end; edits must not reach the file
    {"init": "a\n", "max": 1, "sessions": [{"steps": ["prev-history", "put(c)", "prev-history", "next-history", "prev-history"], "end": "abort"},
                                          {"steps": ["prev-history"], "end": "accept"}]},
    {"init": "a\nb\n", "max": 3, "sessions": [{"steps": ["prev-history", "prev-history", "put(1)", "prev-history", "prev-history", "next-history",
                                                        "prev-history"], "end": "print-query"}]},
    # every way of submitting records the query: become as well
    {"init": "a\n", "max": 3, "sessions": [{"steps": ["change-query(b)"], "end": "become(true)"}, {"steps": ["prev-history"], "end": "abort"}]},
    {"init": None, "max": 2, "sessions": [{"steps": ["change-query(x1)"], "end": "become(exit 1)"}, {"steps": ["change-query(ab)"], "end": "accept"},
                                          {"steps": ["prev-history", "prev-history"], "end": "become(true)"}]},
    # a foreign file without a trailing newline, below the limit
    {"init": "a\nb", "max": 5, "sessions": [{"steps": ["change-query(c)"], "end": "accept"}, {"steps": ["prev-history"], "end": "abort"}]},
    {"init": "b c", "max": 2, "sessions": [{"steps": ["change-query(a)"], "end": "print-query"}]},
    # entries with blanks at their edges survive a reload byte for byte
    {"init": " a\nb \n", "max": 5, "sessions": [{"steps": ["prev-history"], "end": "abort"}, {"steps": ["change-query( c )"], "end": "print-query"},
                                                {"steps": ["prev-history", "prev-history", "prev-history"], "end": "accept"}]},
    # next at the newest end, scratch line kept
    {"init": "a\nb\n", "max": 3, "sessions": [{"steps": ["put(c)", "next-history", "prev-history", "next-history", "next-history"], "end": "accept"}]},
]


def make_chain(rng, nsessions):
    init = rng.choice([None, "", "a", "a\n", "a\nb\n", "a\n\nb\n", "\na\nb", "a\nb\nc\na\n", "b c\nx1\n", "\n\n"])
    mx = rng.choice([1, 2, 3, 5])
    chain = []
    for _ in range(nsessions):
        steps = []
        for _ in range(rng.randint(0, 9)):
            r = rng.random()
            if r < 0.35:
                steps.append("prev-history")
            elif r < 0.6:
                steps.append("next-history")
            elif r < 0.8:
                steps.append("change-query(%s)" % rng.choice(QUERIES))
            elif r < 0.9:
                steps.append("put(%s)" % rng.choice(["a", "b", "1"]))
            else:
                steps.append(rng.choice(["prev-history+prev-history", "prev-history+put(c)+next-history", "next-history+prev-history",
                                         "backward-delete-char", "clear-query"]))
        end = rng.choice(["accept", "accept", "accept", "abort", "print-query", "change-query(zzzz)+accept", "clear-query+accept",
                          "become(true)", "accept-or-print-query"])
        chain.append({"steps": steps, "end": end})
    return {"init": init, "max": mx, "sessions": chain}


def run_chain(ctx, fzf, cid, chain):
    hdir = os.path.join(ctx.work, "hist-%d-%d" % (os.getpid(), cid))
    os.makedirs(hdir, exist_ok=True)
    path = os.path.join(hdir, "history")
    if os.path.exists(path):
        os.remove(path)
    if chain["init"] is not None:
        with open(path, "w") as fh:
            fh.write(chain["init"])
    events = [{"ev": "reset", "file": tokens(chain["init"]), "max": chain["max"], "cid": cid}]
    for sess in chain["sessions"]:
        s = tmuxdrv.Session(ctx, fzf, ["--no-color", "--history", path, "--history-size", str(chain["max"])],
                            input_data="a\nb\nab\nb c\nx1\n", width=50, height=10)
        try:
            s.wait_listening()
            s.wait_for(lambda tr: any(e["ev"] == "term.list" and not e["reading"] for e in tr), what="first list")
            events.append({"ev": "load", "after": tokens(read_file(path))})
            loops = 0
            for st in sess["steps"]:
                code, _ = s.post(st)
                if code != 200:
                    raise Infra("POST %r -> %d" % (st, code))
                loops += 1
                s.wait_count("term.loop", loops)
            s.wait_trace_quiet(quiet=0.05)
            s.post(sess["end"], final=True)
            status, _ = s.wait_exit()
            tr = s.trace()
        finally:
            s.close()
        te = [e for e in tr if e["ev"].startswith("term.") and "input" in e]
        for i, e in enumerate(te):
            if e["ev"] == "term.act" and e["act"] in ("prev-history", "next-history"):
                if i + 1 >= len(te):
                    raise Infra("history action without a following event")
                events.append({"ev": "prev" if e["act"] == "prev-history" else "next", "inp": e["input"], "ret": te[i + 1]["input"]})
        exits = [e for e in te if e["ev"] == "term.exit"]
        final_q = exits[-1]["input"] if exits else te[-1]["input"]       # become(...) replaces the process: no exit event
        events.append({"ev": "end", "how": "submit" if status in (0, 1) else "quit", "q": final_q, "status": status,
                       "after": tokens(read_file(path))})
    return events
