"""C14 drivers: the real fzf binary on a pty that this process owns (python pty = the "terminal"), observed only from
outside - no hooks:

  * the raw byte stream fzf writes to the terminal  -> DEC private mode set/reset events (?1049 ?1000 ?1002 ?1006 ?2004 ?25 ?7)
  * termios of the pty (tcgetattr on the master) before the start, while fzf answers GET /, after the exit
  * /proc: processes that inherited the session marker VERIF_SID (children fzf started: preview / execute / reload /
    input command) and are still alive after fzf is gone
  * TMPDIR listing (fzf-temp-* files of {f} / {+f})
  * the --listen port after the exit

Python only drives, waits and projects observations onto NDJSON events; spec/Trace_Lifecycle.tla decides.
"""
import errno, fcntl, http.client, json, os, re, select, shlex, signal, socket, struct, subprocess, termios, threading, time
import itertools
from vlib import Infra, go_env
import tmuxdrv

_counter = itertools.count()

MODE_NAMES = {1049: "alt", 1000: "m1000", 1002: "m1002", 1006: "m1006", 2004: "paste", 25: "cursor", 7: "wrap"}
MODE_RE = re.compile(rb"\x1b\[\?([0-9;]+)([hl])")
DSR = b"\x1b[6n"


def classify_termios(attrs):
    """Names the line discipline state the way the spec does: cooked (ICANON+ECHO+ISIG), raw (none of them), other."""
    lflag = attrs[3]
    canon, echo, isig = bool(lflag & termios.ICANON), bool(lflag & termios.ECHO), bool(lflag & termios.ISIG)
    if canon and echo and isig:
        return "cooked"
    if not canon and not echo and not isig:
        return "raw"
    return "other"


def mode_events(raw, start=0):
    """Mode set/reset sequences of the byte stream, in order: [(offset, name, on)].  Unknown private modes are reported
    under their number (the spec does not know them: setting one is rejected unless it is reset again... see the spec)."""
    out = []
    for m in MODE_RE.finditer(raw, start):
        for num in m.group(1).split(b";"):
            if not num:
                continue
            n = int(num)
            out.append((m.start(), MODE_NAMES.get(n, "p%d" % n), m.group(2) == b"h"))
    return out


def marked_processes(sid, exclude=()):
    """Live (non-zombie) processes whose environment carries VERIF_SID=<sid>: [(pid, comm, cmdline)]."""
    needle = ("VERIF_SID=%s" % sid).encode()
    found = []
    for d in os.listdir("/proc"):
        if not d.isdigit():
            continue
        pid = int(d)
        if pid in exclude:
            continue
        try:
            with open("/proc/%d/environ" % pid, "rb") as fh:
                env = fh.read()
            if needle not in env.split(b"\0"):
                continue
            with open("/proc/%d/stat" % pid, "rb") as fh:
                stat = fh.read()
            state = stat[stat.rfind(b")") + 2:].split()[0]
            if state in (b"Z", b"X"):
                continue
            with open("/proc/%d/cmdline" % pid, "rb") as fh:
                cmdline = fh.read().replace(b"\0", b" ").decode(errors="replace").strip()
            comm = stat[stat.find(b"(") + 1:stat.rfind(b")")].decode(errors="replace")
            found.append((pid, comm, cmdline))
        except (FileNotFoundError, ProcessLookupError, PermissionError):
            continue
    return found


def kill_marked(sid):
    for pid, _, _ in marked_processes(sid):
        try:
            os.kill(pid, signal.SIGKILL)
        except OSError:
            pass


class PtySession:
    """fzf (through /bin/sh, so that pipes and redirections are real) as session leader's child on a fresh pty."""

    def __init__(self, ctx, fzf, args, input_data=None, input_cmd=None, width=80, height=24, env=None, listen=True,
                 default_command=None):
        n = next(_counter)
        self.ctx = ctx
        self.sid = "L%d_%d" % (os.getpid(), n)
        self.dir = os.path.join(ctx.work, "life-%d-%d" % (os.getpid(), n))
        self.tmp = os.path.join(self.dir, "tmp")
        os.makedirs(self.tmp)
        self.out_path = os.path.join(self.dir, "stdout")
        self.status_path = os.path.join(self.dir, "status")
        self.pid_path = os.path.join(self.dir, "fzf.pid")
        self.port = tmuxdrv.free_port() if listen else None
        argv = [fzf] + list(args)
        if listen:
            argv.append("--listen=127.0.0.1:%d" % self.port)
        # fzf's pid: a fresh sh writes its own pid, then execs fzf (same pid)
        fz = "sh -c %s" % shlex.quote("echo $$ > %s.tmp; mv %s.tmp %s; exec %s" % (
            shlex.quote(self.pid_path), shlex.quote(self.pid_path), shlex.quote(self.pid_path), " ".join(shlex.quote(a) for a in argv)))
        if input_cmd is not None:
            # the producer is not fzf's child: it does not carry the session marker (VERIF_PRODUCER instead)
            cmd = "env -u VERIF_SID VERIF_PRODUCER=%s sh -c %s | %s" % (self.sid, shlex.quote(input_cmd), fz)
        elif default_command is not None:
            cmd = fz            # stdin stays the terminal: fzf runs FZF_DEFAULT_COMMAND itself
        else:
            inp = os.path.join(self.dir, "input")
            with open(inp, "wb") as fh:
                fh.write(input_data if isinstance(input_data, bytes) else (input_data or "").encode())
            cmd = "%s < %s" % (fz, shlex.quote(inp))
        script = os.path.join(self.dir, "run.sh")
        with open(script, "w") as fh:
            fh.write("#!/bin/sh\ntrap : INT\ncd %s\n%s > %s\necho $? > %s.tmp\nmv %s.tmp %s\n" % (
                shlex.quote(self.dir), cmd, shlex.quote(self.out_path), shlex.quote(self.status_path),
                shlex.quote(self.status_path), shlex.quote(self.status_path)))
        os.chmod(script, 0o755)
        e = go_env({"TERM": "xterm-256color", "LC_ALL": "C.UTF-8", "LANG": "C.UTF-8", "SHELL": "/bin/sh", "TMPDIR": self.tmp,
                    "VERIF_SID": self.sid})
        for k in ("TMUX", "TMUX_PANE", "FZF_VERIF_TRACE"):
            e.pop(k, None)
        if default_command is not None:
            e["FZF_DEFAULT_COMMAND"] = default_command
        if env:
            e.update(env)
        self.env = e
        self.master, slave = os.openpty()
        fcntl.ioctl(slave, termios.TIOCSWINSZ, struct.pack("HHHH", height, width, 0, 0))
        self.width, self.height = width, height
        self.termios_before = termios.tcgetattr(self.master)
        self.raw = bytearray()
        self.lock = threading.Lock()
        self.cursor_row = height      # what the "terminal" answers to a cursor position query (bottom line, column 1)
        self.eof = False
        pid = os.fork()
        if pid == 0:
            try:
                os.setsid()
                fcntl.ioctl(slave, termios.TIOCSCTTY, 0)
                os.dup2(slave, 0)
                os.dup2(slave, 1)
                os.dup2(slave, 2)
                os.close(self.master)
                if slave > 2:
                    os.close(slave)
                os.chdir(self.dir)
                os.execve("/bin/sh", ["/bin/sh", script], e)
            finally:
                os._exit(127)
        self.shell_pid = pid
        os.close(slave)
        self.reader = threading.Thread(target=self._pump, daemon=True)
        self.reader.start()
        self._reaped = None

    # ------------------------------------------------------------ the "terminal"
    def _pump(self):
        scanned = 0
        while True:
            try:
                r, _, _ = select.select([self.master], [], [], 0.5)
                if not r:
                    continue
                data = os.read(self.master, 65536)
            except OSError:
                break
            if not data:
                break
            with self.lock:
                self.raw += data
                # answer cursor position queries like a terminal does
                while True:
                    i = self.raw.find(DSR, scanned)
                    if i < 0:
                        scanned = max(0, len(self.raw) - len(DSR) + 1)
                        break
                    scanned = i + len(DSR)
                    try:
                        os.write(self.master, b"\x1b[%d;1R" % self.cursor_row)
                    except OSError:
                        pass
        self.eof = True

    def stream(self):
        with self.lock:
            return bytes(self.raw)

    def offset(self):
        with self.lock:
            return len(self.raw)

    def send(self, data):
        """Bytes typed on the terminal."""
        try:
            os.write(self.master, data)
        except OSError as ex:
            raise Infra("write to pty failed: %s" % ex)

    def resize(self, w, h):
        fcntl.ioctl(self.master, termios.TIOCSWINSZ, struct.pack("HHHH", h, w, 0, 0))     # the kernel sends SIGWINCH
        self.width, self.height = w, h
        self.cursor_row = h

    def termios_now(self):
        return termios.tcgetattr(self.master)

    def termios_state(self):
        return classify_termios(self.termios_now())

    def termios_restored(self):
        a, b = self.termios_before, self.termios_now()
        return a[:6] == b[:6] and a[6] == b[6]

    # ------------------------------------------------------------ http
    def post(self, body, timeout=30.0, final=False):
        c = http.client.HTTPConnection("127.0.0.1", self.port, timeout=timeout)
        try:
            c.request("POST", "/", body=body.encode())
            r = c.getresponse()
            data = r.read()
            return r.status, data
        except (http.client.HTTPException, OSError):
            if final:
                return 0, b""
            raise
        finally:
            c.close()

    def get(self, timeout=30.0):
        """GET / -> decoded state, or None when there is no answer within the bound."""
        c = http.client.HTTPConnection("127.0.0.1", self.port, timeout=timeout)
        try:
            c.request("GET", "/?limit=3")
            r = c.getresponse()
            data = r.read()
            if r.status != 200:
                return None
            return json.loads(data)
        except (http.client.HTTPException, OSError, ValueError):
            return None
        finally:
            c.close()

    def port_open(self):
        try:
            s = socket.create_connection(("127.0.0.1", self.port), timeout=1.0)
            s.close()
            return True
        except OSError:
            return False

    def wait_listening(self, timeout=90.0):
        t0 = time.time()
        while time.time() - t0 < timeout:
            if self.port_open():
                return
            if self.exited():
                raise Infra("fzf exited before listening; terminal output: %r" % self.stream()[-600:])
            time.sleep(0.01)
        raise Infra("fzf did not start listening; terminal output: %r" % self.stream()[-600:])

    def wait_stream(self, pred, timeout=60.0, what="terminal output"):
        t0 = time.time()
        while True:
            v = pred(self.stream())
            if v:
                return v
            if time.time() - t0 > timeout:
                raise Infra("timeout waiting for %s; terminal output tail: %r" % (what, self.stream()[-400:]))
            time.sleep(0.005)

    # ------------------------------------------------------------ processes
    def fzf_pid(self, timeout=60.0):
        t0 = time.time()
        while not os.path.exists(self.pid_path):
            if time.time() - t0 > timeout:
                raise Infra("fzf pid file never appeared")
            time.sleep(0.005)
        with open(self.pid_path) as fh:
            return int(fh.read().strip())

    def children(self):
        """Marked processes other than the shell and fzf itself."""
        ex = {self.shell_pid}
        if os.path.exists(self.pid_path):
            ex.add(self.fzf_pid())
        return marked_processes(self.sid, exclude=ex)

    def wait_child(self, pattern, timeout=60.0):
        """Waits until a marked process whose command line contains `pattern` exists (event-based sync on /proc)."""
        t0 = time.time()
        while time.time() - t0 < timeout:
            for pid, comm, cmdline in self.children():
                if pattern in cmdline:
                    return pid
            if self.exited():
                return None
            time.sleep(0.01)
        raise Infra("child %r never appeared; have %r" % (pattern, self.children()))

    def temp_files(self):
        try:
            return sorted(os.listdir(self.tmp))
        except FileNotFoundError:
            return []

    def fzf_gone(self):
        """fzf's process has terminated (zombie or reaped)."""
        if not os.path.exists(self.pid_path):
            return self.exited()
        pid = self.fzf_pid()
        try:
            with open("/proc/%d/stat" % pid, "rb") as fh:
                stat = fh.read()
        except (FileNotFoundError, ProcessLookupError):
            return True
        return stat[stat.rfind(b")") + 2:].split()[0] in (b"Z", b"X")

    def exited(self):
        return os.path.exists(self.status_path)

    def kill_producer(self):
        needle = ("VERIF_PRODUCER=%s" % self.sid).encode()
        for d in os.listdir("/proc"):
            if d.isdigit():
                try:
                    with open("/proc/%s/environ" % d, "rb") as fh:
                        if needle in fh.read().split(b"\0"):
                            os.kill(int(d), signal.SIGKILL)
                except (OSError, ValueError):
                    pass

    def wait_exit(self, timeout=60.0):
        """Waits until the fzf process is gone; returns its exit status as the shell saw it (None: fzf did not
        terminate within the bound)."""
        t0 = time.time()
        while not self.fzf_gone():
            if time.time() - t0 > timeout:
                return None
            time.sleep(0.005)
        # a producer feeding the pipe is the shell's child, not fzf's: it is stopped now so that the shell can report
        t0 = time.time()
        while not self.exited():
            self.kill_producer()
            if time.time() - t0 > 60:
                raise Infra("shell did not report fzf's status; terminal output tail: %r" % self.stream()[-300:])
            time.sleep(0.01)
        with open(self.status_path) as fh:
            status = int(fh.read().strip())
        t0 = time.time()
        while self._reaped is None and time.time() - t0 < 30:
            try:
                p_, st = os.waitpid(self.shell_pid, os.WNOHANG)
            except ChildProcessError:
                self._reaped = 0
                break
            if p_:
                self._reaped = st
                break
            time.sleep(0.005)
        return status

    def stdout(self):
        try:
            with open(self.out_path, "rb") as fh:
                return fh.read()
        except FileNotFoundError:
            return b""

    def close(self):
        """Infra cleanup (after all observations were taken)."""
        kill_marked(self.sid)
        self.kill_producer()
        try:
            os.kill(self.shell_pid, signal.SIGKILL)
        except OSError:
            pass
        if self._reaped is None:
            try:
                os.waitpid(self.shell_pid, 0)
            except OSError:
                pass
            self._reaped = 0
        try:
            os.close(self.master)
        except OSError:
            pass
        self.reader.join(timeout=2)
