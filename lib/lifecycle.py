"""C14 drivers: the real fzf binary on a pty that this process owns (python pty = the "terminal"), observed only from
outside - no hooks:

  * the raw byte stream fzf writes to the terminal  -> DEC private mode set/reset events (?1049 ?1000 ?1002 ?1006 ?2004 ?25 ?7)
  * termios of the pty (tcgetattr on the master) before the start, while fzf answers GET /, after the exit
  * /proc: processes that inherited the session marker VERIF_SID (children fzf started: preview / execute / reload /
    input command) and are still alive after fzf is gone
  * TMPDIR listing (fzf-temp-* files of {f} / {+f})
  * the --listen port after the exit

Python only drives, waits and projects observations onto NDJSON events; spec/Trace_Lifecycle.tla decides.
"""
import errno, fcntl, http.client, json, os, re, select, shlex, signal, socket, struct, subprocess, termios, threading, time
import itertools
from vlib import Infra, go_env
import tmuxdrv

_counter = itertools.count()

MODE_NAMES = {1049: "alt", 1000: "m1000", 1002: "m1002", 1006: "m1006", 2004: "paste", 25: "cursor", 7: "wrap"}
MODE_RE = re.compile(rb"\x1b\[\?([0-9;]+)([hl])")
DSR = b"\x1b[6n"


def classify_termios(attrs):
    """Names the line discipline state the way the spec does: cooked (ICANON+ECHO+ISIG), raw (none of them), other."""
    lflag = attrs[3]
    canon, echo, isig = bool(lflag & termios.ICANON), bool(lflag & termios.ECHO), bool(lflag & termios.ISIG)
    if canon and echo and isig:
        return "cooked"
    if not canon and not echo and not isig:
        return "raw"
    return "other"


def mode_events(raw, start=0):
    """Mode set/reset sequences of the byte stream, in order: [(offset, name, on)].  Unknown private modes are reported
    under their number (the spec does not know them: setting one is rejected unless it is reset again... see the spec)."""
    out = []
    for m in MODE_RE.finditer(raw, start):
        for num in m.group(1).split(b";"):
            if not num:
                continue
            n = int(num)
            out.append((m.start(), MODE_NAMES.get(n, "p%d" % n), m.group(2) == b"h"))
    return out


def marked_processes(sid, exclude=()):
    """Live (non-zombie) processes whose environment carries VERIF_SID=<sid>: [(pid, comm, cmdline)]."""
    needle = ("VERIF_SID=%s" % sid).encode()
    found = []
    for d in os.listdir("/proc"):
        if not d.isdigit():
            continue
        pid = int(d)
        if pid in exclude:
            continue
        try:
            with open("/proc/%d/environ" % pid, "rb") as fh:
                env = fh.read()
            if needle not in env.split(b"\0"):
                continue
            with open("/proc/%d/stat" % pid, "rb") as fh:
                stat = fh.read()
            state = stat[stat.rfind(b")") + 2:].split()[0]
            if state in (b"Z", b"X"):
                continue
            with open("/proc/%d/cmdline" % pid, "rb") as fh:
                cmdline = fh.read().replace(b"\0", b" ").decode(errors="replace").strip()
            comm = stat[stat.find(b"(") + 1:stat.rfind(b")")].decode(errors="replace")
            found.append((pid, comm, cmdline))
        except (FileNotFoundError, ProcessLookupError, PermissionError):
            continue
    return found


def kill_marked(sid):
    for pid, _, _ in marked_processes(sid):
        try:
            os.kill(pid, signal.SIGKILL)
        except OSError:
            pass


class PtySession:
    """fzf (through /bin/sh, so that pipes and redirections are real) as session leader's child on a fresh pty."""

    def __init__(self, ctx, fzf, args, input_data=None, input_cmd=None, width=80, height=24, env=None, listen=True,
                 default_command=None):
        n = next(_counter)
        self.ctx = ctx
        self.sid = "L%d_%d" % (os.getpid(), n)
        self.dir = os.path.join(ctx.work, "life-%d-%d" % (os.getpid(), n))
        self.tmp = os.path.join(self.dir, "tmp")
        os.makedirs(self.tmp)
        self.out_path = os.path.join(self.dir, "stdout")
        self.status_path = os.path.join(self.dir, "status")
        self.pid_path = os.path.join(self.dir, "fzf.pid")
        self.port = tmuxdrv.free_port() if listen else None
        argv = [fzf] + list(args)
        if listen:
            argv.append("--listen=127.0.0.1:%d" % self.port)
        # fzf's pid: a fresh sh writes its own pid, then execs fzf (same pid)
        fz = "sh -c %s" % shlex.quote("echo $$ > %s.tmp; mv %s.tmp %s; exec %s" % (
            shlex.quote(self.pid_path), shlex.quote(self.pid_path), shlex.quote(self.pid_path), " ".join(shlex.quote(a) for a in argv)))
        if input_cmd is not None:
            # the producer is not fzf's child: it does not carry the session marker (VERIF_PRODUCER instead)
            cmd = "env -u VERIF_SID VERIF_PRODUCER=%s sh -c %s | %s" % (self.sid, shlex.quote(input_cmd), fz)
        elif default_command is not None:
            cmd = fz            # stdin stays the terminal: fzf runs FZF_DEFAULT_COMMAND itself
        else:
            inp = os.path.join(self.dir, "input")
            with open(inp, "wb") as fh:
                fh.write(input_data if isinstance(input_data, bytes) else (input_data or "").encode())
            cmd = "%s < %s" % (fz, shlex.quote(inp))
        script = os.path.join(self.dir, "run.sh")
        with open(script, "w") as fh:
            fh.write("#!/bin/sh\ntrap : INT\ncd %s\n%s > %s\necho $? > %s.tmp\nmv %s.tmp %s\n" % (
                shlex.quote(self.dir), cmd, shlex.quote(self.out_path), shlex.quote(self.status_path),
                shlex.quote(self.status_path), shlex.quote(self.status_path)))
        os.chmod(script, 0o755)
        self.claims_path = os.path.join(self.dir, "claims")
        e = go_env({"TERM": "xterm-256color", "LC_ALL": "C.UTF-8", "LANG": "C.UTF-8", "SHELL": "/bin/sh", "TMPDIR": self.tmp,
                    "VERIF_SID": self.sid, "VERIF_CLAIMS": self.claims_path})
        for k in ("TMUX", "TMUX_PANE", "FZF_VERIF_TRACE"):
            e.pop(k, None)
        if default_command is not None:
            e["FZF_DEFAULT_COMMAND"] = default_command
        if env:
            e.update(env)
        self.env = e
        self.master, slave = os.openpty()
        fcntl.ioctl(slave, termios.TIOCSWINSZ, struct.pack("HHHH", height, width, 0, 0))
        self.width, self.height = width, height
        self.termios_before = termios.tcgetattr(self.master)
        self.raw = bytearray()
        self.lock = threading.Lock()
        self.cursor_row = height      # what the "terminal" answers to a cursor position query (bottom line, column 1)
        self.eof = False
        self.idle_at = 0.0
        pid = os.fork()
        if pid == 0:
            try:
                os.setsid()
                fcntl.ioctl(slave, termios.TIOCSCTTY, 0)
                os.dup2(slave, 0)
                os.dup2(slave, 1)
                os.dup2(slave, 2)
                os.close(self.master)
                if slave > 2:
                    os.close(slave)
                os.chdir(self.dir)
                os.execve("/bin/sh", ["/bin/sh", script], e)
            finally:
                os._exit(127)
        self.shell_pid = pid
        os.close(slave)
        self.reader = threading.Thread(target=self._pump, daemon=True)
        self.reader.start()
        self._reaped = None

    # ------------------------------------------------------------ the "terminal"
    def _pump(self):
        scanned = 0
        while True:
            try:
                r, _, _ = select.select([self.master], [], [], 0.03)
                if not r:
                    self.idle_at = time.monotonic()
                    continue
                data = os.read(self.master, 65536)
            except OSError:
                break
            if not data:
                break
            with self.lock:
                self.raw += data
                # answer cursor position queries like a terminal does
                while True:
                    i = self.raw.find(DSR, scanned)
                    if i < 0:
                        scanned = max(0, len(self.raw) - len(DSR) + 1)
                        break
                    scanned = i + len(DSR)
                    try:
                        os.write(self.master, b"\x1b[%d;1R" % self.cursor_row)
                    except OSError:
                        pass
        self.eof = True
        self.idle_at = time.monotonic() + 1e9

    def stream(self):
        with self.lock:
            return bytes(self.raw)

    def drain(self, timeout=20.0):
        """Returns once everything fzf had written before the call has been read from the pty."""
        t = time.monotonic()
        while self.idle_at <= t and not self.eof:
            if time.monotonic() - t > timeout:
                raise Infra("pty never went idle")
            time.sleep(0.005)

    def offset(self):
        with self.lock:
            return len(self.raw)

    def send(self, data):
        """Bytes typed on the terminal."""
        try:
            os.write(self.master, data)
        except OSError as ex:
            raise Infra("write to pty failed: %s" % ex)

    def resize(self, w, h):
        fcntl.ioctl(self.master, termios.TIOCSWINSZ, struct.pack("HHHH", h, w, 0, 0))     # the kernel sends SIGWINCH
        self.width, self.height = w, h
        self.cursor_row = h

    def termios_now(self):
        return termios.tcgetattr(self.master)

    def termios_state(self):
        return classify_termios(self.termios_now())

    def termios_restored(self):
        a, b = self.termios_before, self.termios_now()
        return a[:6] == b[:6] and a[6] == b[6]

    # ------------------------------------------------------------ http
    def post(self, body, timeout=30.0, final=False):
        c = http.client.HTTPConnection("127.0.0.1", self.port, timeout=timeout)
        try:
            c.request("POST", "/", body=body.encode())
            r = c.getresponse()
            data = r.read()
            return r.status, data
        except (http.client.HTTPException, OSError):
            if final:
                return 0, b""
            raise
        finally:
            c.close()

    def get(self, timeout=30.0):
        """GET / -> decoded state, or None when there is no answer within the bound."""
        c = http.client.HTTPConnection("127.0.0.1", self.port, timeout=timeout)
        try:
            c.request("GET", "/?limit=3")
            r = c.getresponse()
            data = r.read()
            if r.status != 200:
                return None
            return json.loads(data)
        except (http.client.HTTPException, OSError, ValueError):
            return None
        finally:
            c.close()

    def port_open(self):
        try:
            s = socket.create_connection(("127.0.0.1", self.port), timeout=1.0)
            s.close()
            return True
        except OSError:
            return False

    def wait_listening(self, timeout=90.0):
        """True once the port answers; False if fzf is gone instead."""
        t0 = time.time()
        while time.time() - t0 < timeout:
            if self.port_open():
                return True
            if self.exited() or (os.path.exists(self.pid_path) and self.fzf_gone()):
                return False
            time.sleep(0.01)
        raise Infra("fzf did not start listening; terminal output: %r" % self.stream()[-600:])

    def wait_stream(self, pred, timeout=60.0, what="terminal output"):
        t0 = time.time()
        while True:
            v = pred(self.stream())
            if v:
                return v
            if os.path.exists(self.pid_path) and self.fzf_gone():
                return None
            if time.time() - t0 > timeout:
                raise Infra("timeout waiting for %s; terminal output tail: %r" % (what, self.stream()[-400:]))
            time.sleep(0.005)

    # ------------------------------------------------------------ processes
    def fzf_pid(self, timeout=60.0):
        t0 = time.time()
        while not os.path.exists(self.pid_path):
            if time.time() - t0 > timeout:
                raise Infra("fzf pid file never appeared")
            time.sleep(0.005)
        with open(self.pid_path) as fh:
            return int(fh.read().strip())

    def children(self):
        """Marked processes other than the shell and fzf itself."""
        ex = {self.shell_pid}
        if os.path.exists(self.pid_path):
            ex.add(self.fzf_pid())
        return marked_processes(self.sid, exclude=ex)

    def wait_child(self, pattern, timeout=60.0):
        """Waits until a marked process whose command line contains `pattern` exists (event-based sync on /proc)."""
        t0 = time.time()
        while time.time() - t0 < timeout:
            for pid, comm, cmdline in self.children():
                if pattern in cmdline:
                    return pid
            if self.exited():
                return None
            time.sleep(0.01)
        raise Infra("child %r never appeared; have %r" % (pattern, self.children()))

    def temp_files(self):
        try:
            return sorted(os.listdir(self.tmp))
        except FileNotFoundError:
            return []

    def fzf_gone(self):
        """fzf's process has terminated (zombie or reaped)."""
        if not os.path.exists(self.pid_path):
            return self.exited()
        pid = self.fzf_pid()
        try:
            with open("/proc/%d/stat" % pid, "rb") as fh:
                stat = fh.read()
        except (FileNotFoundError, ProcessLookupError):
            return True
        return stat[stat.rfind(b")") + 2:].split()[0] in (b"Z", b"X")

    def exited(self):
        return os.path.exists(self.status_path)

    def wait_gone_only(self, timeout):
        t0 = time.time()
        while not self.fzf_gone():
            if time.time() - t0 > timeout:
                return False
            time.sleep(0.01)
        return True

    def kill_producer(self):
        needle = ("VERIF_PRODUCER=%s" % self.sid).encode()
        for d in os.listdir("/proc"):
            if d.isdigit():
                try:
                    with open("/proc/%s/environ" % d, "rb") as fh:
                        if needle in fh.read().split(b"\0"):
                            os.kill(int(d), signal.SIGKILL)
                except (OSError, ValueError):
                    pass

    def wait_exit(self, timeout=60.0):
        """Waits until the fzf process is gone; returns its exit status as the shell saw it (None: fzf did not
        terminate within the bound)."""
        t0 = time.time()
        while not self.fzf_gone():
            if time.time() - t0 > timeout:
                return None
            time.sleep(0.005)
        # a producer feeding the pipe is the shell's child, not fzf's: it is stopped now so that the shell can report
        t0 = time.time()
        while not self.exited():
            self.kill_producer()
            if time.time() - t0 > 60:
                raise Infra("shell did not report fzf's status; terminal output tail: %r" % self.stream()[-300:])
            time.sleep(0.01)
        with open(self.status_path) as fh:
            status = int(fh.read().strip())
        t0 = time.time()
        while self._reaped is None and time.time() - t0 < 30:
            try:
                p_, st = os.waitpid(self.shell_pid, os.WNOHANG)
            except ChildProcessError:
                self._reaped = 0
                break
            if p_:
                self._reaped = st
                break
            time.sleep(0.005)
        return status

    def stdout(self):
        try:
            with open(self.out_path, "rb") as fh:
                return fh.read()
        except FileNotFoundError:
            return b""

    def close(self):
        """Infra cleanup (after all observations were taken)."""
        kill_marked(self.sid)
        self.kill_producer()
        try:
            os.kill(self.shell_pid, signal.SIGKILL)
        except OSError:
            pass
        if self._reaped is None:
            try:
                os.waitpid(self.shell_pid, 0)
            except OSError:
                pass
            self._reaped = 0
        try:
            os.close(self.master)
        except OSError:
            pass
        self.reader.join(timeout=2)


# ---------------------------------------------------------------------------------------------------------------
# One life of fzf: step primitives (shared by the spec-generated behaviours and the seeded random scenarios) and the
# projection of everything observed onto the events of spec/Trace_Lifecycle.tla
# ---------------------------------------------------------------------------------------------------------------
KIND_TAG = {"preview": 1001, "reload": 1002, "execute": 1003, "silent": 1004}
ACTION_OF = {"preview": "preview", "reload": "reload", "execute": "execute", "silent": "execute-silent"}
PANIC_MARKS = (b"panic:", b"goroutine ", b"fatal error")
PASTE_ON = b"\x1b[?2004h"


def kind_of(cmdline):
    for k, n in KIND_TAG.items():
        if "sleep %d" % n in cmdline:
            return k
    return "other"


def child_command(kind, ntemps):
    """A command that never ends by itself; its {f}/{+f} placeholders make fzf create ntemps temp files for it."""
    ph = ["{f}", "{+f}"][:ntemps]
    # the command itself records which temp files are its own (the driver reads the claims, it does not guess)
    cmd = ("echo %s %s >> \"$VERIF_CLAIMS\"; " % (kind, " ".join(ph))) if ph else ""
    if kind == "reload":
        cmd += "echo a; echo b; "
    return cmd + "sleep %d" % KIND_TAG[kind]


def cfg_args(cfg):
    a = []
    if cfg.get("height") or not cfg["full"]:
        a.append("--height=%s" % (cfg.get("height") or "10"))
    if not cfg["mouse"]:
        a.append("--no-mouse")
    if not cfg["clear"]:
        a.append("--no-clear")
    return a


def has_panic(raw):
    return any(m in raw for m in PANIC_MARKS)


class Life:
    def __init__(self, ctx, fzf, sid, cfg, extra_args=(), items=("a", "b", "c"), size=(80, 24), default_command=None,
                 input_cmd=None, cmds=()):
        self.ctx, self.sid, self.cfg = ctx, sid, cfg
        self.cmds = sorted(set(cmds))
        self.s = PtySession(ctx, fzf, cfg_args(cfg) + list(extra_args),
                            input_data=None if (default_command or input_cmd) else "".join(i + "\n" for i in items),
                            input_cmd=input_cmd, default_command=default_command, width=size[0], height=size[1])
        self.marks = []
        self.alive = True
        self.requested = []
        self.log = []
        self.owner_memo = {}      # temp file -> kind of the command whose command line named it while it was alive

    # ------------------------------------------------------------ recording
    def mark(self, ev):
        self.marks.append((self.s.offset(), len(self.marks), ev))

    def note(self, *a):
        self.log.append(" ".join(str(x) for x in a))

    def world(self):
        """(kinds alive, owner kind of each temp file)."""
        procs = self.s.children()
        kinds = sorted({kind_of(c) for _, _, c in procs})
        owners = []
        try:
            with open(self.s.claims_path) as fh:
                for line in fh:
                    w = line.split()
                    for path in w[1:]:
                        self.owner_memo[os.path.basename(path)] = w[0]
        except FileNotFoundError:
            pass
        for f in self.s.temp_files():
            own = sorted({kind_of(c) for _, _, c in procs if f in c})
            if own:
                self.owner_memo[f] = own[0]
            owners.append(own[0] if own else self.owner_memo.get(f, "none"))
        return kinds, sorted(owners)

    def observe(self, sample=True):
        """Quiescent-point observation: what is alive, which temp files exist, termios."""
        self.s.drain()
        kinds, owners = self.world()
        self.mark({"ev": "child", "kinds": kinds, "temps": owners})
        if sample:
            self.mark({"ev": "tio", "tio": self.s.termios_state()})

    def probe_alive(self):
        """Liveness probe: GET / within a generous bound, one retry."""
        for _ in range(2):
            if self.s.fzf_gone() or self.s.get(timeout=30) is not None:
                return
            if self.s.wait_gone_only(5):     # the listener closes a moment before the process is gone
                return
        self.alive = False
        self.note("no answer to GET /")

    def paste_count(self):
        return self.s.stream().count(PASTE_ON)

    def proc_state(self):
        try:
            with open("/proc/%d/stat" % self.s.fzf_pid(), "rb") as fh:
                stat = fh.read()
            return stat[stat.rfind(b")") + 2:].split()[0].decode()
        except OSError:
            return "X"

    def wait_until(self, cond, timeout, what):
        t0 = time.time()
        while not cond():
            if time.time() - t0 > timeout:
                return False
            if self.s.fzf_gone():
                return False
            time.sleep(0.005)
        return True

    # ------------------------------------------------------------ steps
    def init(self):
        """False: fzf went away while starting (what is left is still observed and judged)."""
        if not self.s.wait_listening() or not self.s.wait_stream(lambda b: PASTE_ON in b, timeout=90, what="renderer initialisation"):
            self.note("fzf exited while starting")
            return False
        self.s.drain()
        self.mark({"ev": "tio", "tio": self.s.termios_state()})
        return True

    def post(self, body, final=False):
        try:
            st, _ = self.s.post(body, final=final)
        except OSError:
            if self.s.fzf_gone():
                return 0
            raise Infra("POST %r failed while fzf is alive" % body)
        if st not in (0, 200):
            raise Infra("POST %r -> %d" % (body, st))
        return st

    def start(self, kind, ntemps, wait=True):
        self.post("%s(%s)" % (ACTION_OF[kind], child_command(kind, ntemps)))
        if wait:
            self.await_child(kind)

    def await_child(self, kind, timeout=60):
        tag = "sleep %d" % KIND_TAG[kind]
        pid = self.s.wait_child(tag, timeout=timeout)
        if pid is None:
            return False
        self.observe()
        return True

    def kind_pids(self, kind, only_sleep=True):
        tag = "sleep %d" % KIND_TAG[kind]
        return [pid for pid, comm, c in self.s.children() if tag in c and (comm == "sleep" or not only_sleep)]

    def end(self, kind, method="kill"):
        """The command ends: its `sleep` is terminated (or, for a command that owns the terminal, the user types ^C)."""
        before = self.paste_count()
        was = self.s.termios_state()
        def stop():
            # the command's shell may not have started its `sleep` yet: keep looking for it until the command is gone
            for pid in self.kind_pids(kind):
                try:
                    os.kill(pid, signal.SIGTERM)
                except OSError:
                    pass
            return not self.kind_pids(kind, only_sleep=False)
        if method == "ctrl-c":
            self.request("SIGINT", send=False)      # the terminal sends SIGINT to the whole foreground group, fzf included
            self.s.send(b"\x03")
            gone = self.wait_until(lambda: not self.kind_pids(kind, only_sleep=False), 20, "command gone") or self.wait_until(stop, 60, "command gone")
        else:
            gone = self.wait_until(stop, 90, "command gone")
        if not gone and not self.s.fzf_gone():
            raise Infra("command %s did not end" % kind)
        if self.s.fzf_gone():
            return
        if kind == "execute":
            self.wait_until(lambda: self.paste_count() > before, 60, "renderer resumed")
        elif kind == "silent" and was == "cooked" and not self.requested:
            self.wait_until(lambda: self.s.termios_state() == "raw", 60, "raw mode again")
        if not self.s.fzf_gone() and not self.requested:
            self.observe()      # (once an exit has been asked for fzf may be on its way out: no quiescent point any more)

    def bgpause(self):
        if not self.wait_until(lambda: self.s.termios_state() == "cooked", 60, "renderer paused") and not self.s.fzf_gone():
            raise Infra("execute-silent: the renderer was never paused")
        self.s.drain()
        self.mark({"ev": "tio", "tio": self.s.termios_state()})

    def suspend(self):
        """ctrl-z.  fzf pauses the renderer and sends SIGTSTP to its process group; on this terminal there is no job
        control shell (the group is orphaned, the kernel discards the stop), so fzf goes straight on to re-initialise."""
        before_on, before_off = self.paste_count(), self.s.stream().count(b"\x1b[?2004l")
        self.mark({"ev": "stopped"})
        self.s.send(b"\x1a")
        if self.cfg["full"]:
            ok = self.wait_until(lambda: self.paste_count() > before_on, 60, "renderer re-initialised")
        else:
            ok = self.wait_until(lambda: self.s.stream().count(b"\x1b[?2004l") > before_off and self.s.termios_state() == "raw", 60,
                                 "renderer re-initialised")
        if not ok and not self.s.fzf_gone():
            raise Infra("ctrl-z: no sign of fzf re-initialising the renderer")
        self.s.drain()

    def cont(self):
        if self.proc_state() == "T":
            os.kill(self.s.fzf_pid(), signal.SIGCONT)
            self.wait_until(lambda: self.proc_state() != "T", 60, "continued")
        self.probe_alive()
        self.s.drain()
        self.mark({"ev": "tio", "tio": self.s.termios_state()})

    def cursor(self):
        self.post("toggle-input")
        self.probe_alive()

    def request(self, how, via=None, send=True):
        """Asks fzf to exit.  how: the spec's name; via: the concrete stimulus."""
        self.mark({"ev": "req", "how": how})
        self.requested.append(how)
        if not send:
            return
        via = via or how
        if via in ("SIGINT", "SIGTERM"):
            os.kill(self.s.fzf_pid(), getattr(signal, via))
        elif via.startswith("key:"):
            self.s.send(bytes.fromhex(via[4:]))
        elif via.startswith("post:"):
            self.post(via[5:], final=True)
        else:
            raise Infra("unknown exit stimulus " + via)

    def finish(self, grace=3.0):
        """Waits for fzf to go; a command that owns the terminal is ended first (exits are deferred until then);
        takes the final observations.  Returns the list of events of this life."""
        s = self.s
        status = s.wait_exit(grace)
        rounds = 0
        while status is None and rounds < 4:
            rounds += 1
            owners = [k for k in ("execute", "silent") if self.kind_pids(k, only_sleep=False)]
            if self.proc_state() == "T":
                self.cont()
            elif owners:
                self.observe()
                for k in owners:
                    self.end(k)
            elif rounds >= 2:
                # nothing owns the terminal and fzf is still there: the request was dropped (SIGINT meant for a
                # command) or swallowed by the terminal: ask again
                self.probe_alive()
                self.request("abort", "post:abort")
            status = s.wait_exit(20 if rounds < 4 else 60)
        gone = status is not None
        s.drain() if gone else None
        # kills sent by fzf are asynchronous: give the victims time to die before calling them survivors
        t0 = time.time()
        kinds, owners = self.world()
        while kinds and time.time() - t0 < 10:
            time.sleep(0.05)
            kinds, owners = self.world()
        kinds, owners = self.world()
        raw = s.stream()
        self.mark({"ev": "exit", "status": status if gone else -1, "tio": s.termios_state(), "tio_same": s.termios_restored(),
                   "kinds": kinds, "temps": owners, "port": s.port_open(), "alive": self.alive, "panic": has_panic(raw),
                   "gone": gone})
        return self.events()

    def events(self, raw=None):
        raw = self.s.stream() if raw is None else raw
        merged = [((off, 1, i), {"ev": "mode", "m": name, "on": on}) for i, (off, name, on) in enumerate(mode_events(raw))]
        merged += [((off, 0, i), ev) for off, i, ev in self.marks]
        merged.sort(key=lambda x: x[0])
        c = self.cfg
        return [{"ev": "start", "sid": self.sid, "cfg": {"full": c["full"], "mouse": c["mouse"], "clear": c["clear"], "listen": True},
                 "cmds": self.cmds}] + [e for _, e in merged]

    def close(self):
        self.s.close()


def tracked_ops(events):
    return [{"m": e["m"], "on": e["on"]} for e in events if e["ev"] == "mode" and e["m"] in ("alt", "m1000", "m1002", "m1006", "paste")]


# ---------------------------------------------------------------------------------------------------------------
# Robustness sessions: the real fzf in a tmux pane (a full terminal emulator: any size from 1x1, answers queries,
# keeps its own record of the modes), raw output through `pipe-pane`
# ---------------------------------------------------------------------------------------------------------------
WRAPPER = r'''#!/bin/sh
# runs the real fzf (pid recorded, session marker only on fzf and what it starts), keeps the pane alive afterwards
# so that the emulator's mode flags and the termios of the pane's tty can still be read
trap : INT QUIT TSTP
D=$PWD
while [ ! -e "$D/go" ]; do sleep 0.02; done
VERIF_SID="$VERIF_SID_PASS" sh -c 'echo $$ > "$0/fzf.pid.tmp"; mv "$0/fzf.pid.tmp" "$0/fzf.pid"; exec "$@"' "$D" "$VERIF_REAL_FZF" "$@"
st=$?
echo $st > "$D/fzf.status.tmp"; mv "$D/fzf.status.tmp" "$D/fzf.status"
while [ ! -e "$D/release" ]; do sleep 0.05; done
exit $st
'''
TMUX_FLAGS = "#{alternate_on} #{mouse_standard_flag} #{mouse_button_flag} #{mouse_sgr_flag} #{cursor_flag} #{wrap_flag} #{mouse_any_flag}"


class TmuxLife:
    def __init__(self, ctx, fzf, sid, cfg, extra_args=(), input_bytes=b"a\nb\n", size=(80, 24)):
        self.ctx, self.sid, self.cfg = ctx, sid, cfg
        wrapper = os.path.join(ctx.work, "fzf-wrapper.sh")
        if not os.path.exists(wrapper):
            with open(wrapper + ".%d" % threading.get_ident(), "w") as fh:
                fh.write(WRAPPER)
            os.chmod(wrapper + ".%d" % threading.get_ident(), 0o755)
            os.replace(wrapper + ".%d" % threading.get_ident(), wrapper)
        self.marker = "R%d_%d" % (os.getpid(), sid)
        self.t = tmuxdrv.Session(ctx, wrapper, cfg_args(cfg) + list(extra_args), input_data=input_bytes, width=size[0], height=size[1],
                                 env={"VERIF_SID_PASS": self.marker, "VERIF_REAL_FZF": fzf},
                                 shell_prefix="trap : INT QUIT TSTP; ")     # bytes typed after fzf has gone may be ^C ^\\ ^Z
        self.dir = self.t.dir
        self.logp = os.path.join(self.dir, "pane.raw")
        self.marks = []
        self.alive = True
        self.notes = []
        self.t.tmux("pipe-pane", "-t", "s", "-o", "cat >> %s" % shlex.quote(self.logp))
        tty = self.t.tmux("display", "-p", "-t", "s", "#{pane_tty}").strip()
        self.ttyfd = os.open(tty, os.O_RDONLY | os.O_NOCTTY | os.O_NONBLOCK)
        self.termios_before = termios.tcgetattr(self.ttyfd)
        open(os.path.join(self.dir, "go"), "w").close()

    def stream(self):
        try:
            with open(self.logp, "rb") as fh:
                return fh.read()
        except FileNotFoundError:
            return b""

    def offset(self):
        try:
            return os.path.getsize(self.logp)
        except OSError:
            return 0

    def mark(self, ev, off=None):
        self.marks.append((self.offset() if off is None else off, len(self.marks), ev))

    def fzf_pid(self):
        p = os.path.join(self.dir, "fzf.pid")
        t0 = time.time()
        while not os.path.exists(p):
            if time.time() - t0 > 60:
                raise Infra("fzf pid file never appeared (tmux)")
            time.sleep(0.01)
        return int(open(p).read().strip())

    def gone(self):
        return os.path.exists(os.path.join(self.dir, "fzf.status"))

    def status(self):
        return int(open(os.path.join(self.dir, "fzf.status")).read().strip())

    def init(self):
        """False: fzf went away while starting (what is left is still observed and judged)."""
        t0 = time.time()
        while True:
            if self.gone():
                return False
            try:
                c = socket.create_connection(("127.0.0.1", self.t.port), timeout=0.5)
                c.close()
                break
            except OSError:
                pass
            if time.time() - t0 > 90:
                raise Infra("tmux session: fzf did not start listening; screen:\n" + "\n".join(self.t.capture()))
            time.sleep(0.01)
        while PASTE_ON not in self.stream():
            if time.time() - t0 > 120:
                raise Infra("tmux session: renderer initialisation not seen; screen:\n" + "\n".join(self.t.capture()))
            if self.gone():
                return False
            time.sleep(0.01)
        return True

    def probe_alive(self):
        if self.gone():
            return
        for _ in range(2):
            try:
                if self.t.get(limit=3, timeout=30) is not None:
                    return
            except (OSError, http.client.HTTPException, ValueError):
                pass
            if self.wait_gone(5):        # the listener closes a moment before the process is gone
                return
        self.alive = False

    def wait_gone(self, timeout):
        t0 = time.time()
        while not self.gone():
            if time.time() - t0 > timeout:
                return False
            time.sleep(0.01)
        return True

    def children(self):
        ex = set()
        try:
            ex.add(self.fzf_pid())
        except Infra:
            pass
        return marked_processes(self.marker, exclude=ex)

    def temp_files(self):
        return sorted(f for f in os.listdir(self.dir) if f.startswith("fzf-temp-"))

    def finish(self):
        gone = self.gone()
        if gone:
            # let the pane log catch up with what fzf wrote last
            last, t0 = -1, time.time()
            while time.time() - t0 < 10:
                n = self.offset()
                if n == last:
                    break
                last = n
                time.sleep(0.1)
        t0 = time.time()
        procs = self.children()
        while procs and time.time() - t0 < 10:
            time.sleep(0.05)
            procs = self.children()
        kinds = sorted({kind_of(c) for _, _, c in procs})
        owners = []
        for f in self.temp_files():
            own = sorted({kind_of(c) for _, _, c in procs if f in c})
            owners.append(own[0] if own else "none")
        fl = self.t.tmux("display", "-p", "-t", "s", TMUX_FLAGS).split()
        emu = {"alt": fl[0] == "1", "m1000": fl[1] == "1", "m1002": fl[2] == "1", "m1006": fl[3] == "1", "cursor": fl[4] == "1",
               "wrap": fl[5] == "1"}
        try:
            now = termios.tcgetattr(self.ttyfd)
        except termios.error as ex:
            raise Infra("tmux pane's tty is gone (%s); pane dead=%s" % (ex, self.t.tmux("display", "-p", "-t", "s", "#{pane_dead}", check=False).strip()))
        raw = self.stream()
        screen = "\n".join(self.t.capture()).encode(errors="replace")
        port_open = True
        try:
            c = socket.create_connection(("127.0.0.1", self.t.port), timeout=1.0)
            c.close()
        except OSError:
            port_open = False
        self.mark({"ev": "exit", "status": self.status() if gone else -1, "tio": classify_termios(now),
                   "tio_same": now[:6] == self.termios_before[:6] and now[6] == self.termios_before[6],
                   "tio_diff": [i for i in range(6) if now[i] != self.termios_before[i]] +
                               [100 + i for i in range(min(len(now[6]), len(self.termios_before[6]))) if now[6][i] != self.termios_before[6][i]],
                   "kinds": kinds, "temps": sorted(owners),
                   "port": port_open, "alive": self.alive, "panic": has_panic(raw) or has_panic(screen), "gone": gone, "emu": emu})
        merged = [((off, 1, i), {"ev": "mode", "m": name, "on": on}) for i, (off, name, on) in enumerate(mode_events(raw))]
        merged += [((off, 0, i), ev) for off, i, ev in self.marks]
        merged.sort(key=lambda x: x[0])
        c = self.cfg
        return [{"ev": "start", "sid": self.sid, "cfg": {"full": c["full"], "mouse": c["mouse"], "clear": c["clear"], "listen": True},
                 "cmds": []}] + [e for _, e in merged]

    def close(self):
        try:
            open(os.path.join(self.dir, "release"), "w").close()
        except OSError:
            pass
        kill_marked(self.marker)
        try:
            os.close(self.ttyfd)
        except OSError:
            pass
        self.t.close()
