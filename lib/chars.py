"""Python side of spec/FzfChars.tla / harness/shared/chars.go: symbol <-> character."""
SYM = {
    "a": "a", "b": "b", "c": "c", "e": "e", "A": "A", "B": "B", "C": "C", "1": "1", "2": "2",
    "a~": "á", "A~": "Á", "e~": "é", "han": "漢", " ": " ", "TAB": "\t",
    "_": "_", "-": "-", ".": ".", "$": "$", "^": "^", "'": "'", "!": "!", "\\": "\\", "(": "(", ")": ")", "*": "*", "+": "+",
    "/": "/", ",": ",", ":": ":", ";": ";", "|": "|",
    # added for the field tokenizer (C10)
    "CR": "\r", "VT": "\v", "FF": "\f", "LF": "\n", "BS": "\b", "US": "\x1f", "DEL": "\x7f",
    "NBSP": "\u00a0", "NEL": "\u0085", "IDSP": "\u3000", "EMSP": "\u2003", "ZWSP": "\u200b",
    "a`": "\u00e0", "aog": "\u0105", "dag": "\u2020", "ni": "\u4f60", "hori": "\u5800",
    # added for non-ASCII literal delimiters (C10)
    "e`": "\u00e8", "bxv": "\u2502", "bxh": "\u2500",
}
SYM_OF = {v: k for k, v in SYM.items()}


def text(syms):
    return "".join(SYM[s] for s in syms)


def syms(s, lenient=False):
    """lenient: a character outside the table denotes itself (its class is then 'nonword' for the specification)."""
    if lenient:
        return [SYM_OF.get(c, c) for c in s]
    return [SYM_OF[c] for c in s]


def known(s):
    return all(c in SYM_OF for c in s)
