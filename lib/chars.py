"""Python side of spec/FzfChars.tla / harness/shared/chars.go: symbol <-> character."""
SYM = {
    "a": "a", "b": "b", "c": "c", "e": "e", "A": "A", "B": "B", "C": "C", "1": "1", "2": "2",
    "a~": "á", "A~": "Á", "e~": "é", "han": "漢", " ": " ", "TAB": "\t",
    "_": "_", "-": "-", ".": ".", "$": "$", "^": "^", "'": "'", "!": "!", "\\": "\\", "(": "(", ")": ")", "*": "*", "+": "+",
    "/": "/", ",": ",", ":": ":", ";": ";", "|": "|",
}
SYM_OF = {v: k for k, v in SYM.items()}


def text(syms):
    return "".join(SYM[s] for s in syms)


def syms(s, lenient=False):
    """lenient: a character outside the table denotes itself (its class is then 'nonword' for the specification)."""
    if lenient:
        return [SYM_OF.get(c, c) for c in s]
    return [SYM_OF[c] for c in s]


def known(s):
    return all(c in SYM_OF for c in s)
