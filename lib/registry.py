"""What MANIFEST.json claims, per property."""
HOOK_COMMITS = ["77b2c42", "6128e10", "5f416f7", "71aa134", "8a2b985", "97ca607", "00b31e7", "29278f7", "85b0f09", "9dbd401", "f1dc223", "2b0d9e1", "910f31b", "fcec086"]
FIX_COMMITS = ["5da2d24", "9b55744", "1ceb643", "2d49340", "9d87992", "737054a", "6331ab3", "02d90a3", "55099e0", "525f2ed", "54287dc", "82ec18b", "6946a78", "98af13c", "7d6d443", "c8fc19d", "fe16054", "301ccb6", "5b06179", "0dfdf56", "6455364", "0012f56", "629893a", "f3bad56", "4b4c069", "a888699", "97e996b", "1f4e693", "e21ec6a", "225f66d", "a11a6d4", "57de50f"]
NOTES = ("Every check: TLC model-checks the module's design on small constants, then binds it to /repo's current working "
         "tree (rebuilt on every run with -tags verif). Exit 2 = infrastructure problem, never a verdict.")
NOT_APPLICABLE = {}
SUSPENDED = {}
CHECKS = {
    "C14": {
        "text": "FzfLifecycle.tla models what fzf changes in its environment (termios, alternate screen, mouse/paste/cursor modes, "
                "renderer queue, listener, preview/reload/execute/execute-silent commands, {f} temp files) with the renderer calls "
                "of tui/light.go as op lists. TLC checks for every option combination that an exit can be requested in every state "
                "and leaves everything as found, and that a requested exit completes once a command owning the terminal has ended "
                "(liveness). Spec-simulated behaviours are brought about on the real binary on a pty and the terminal must receive "
                "exactly the predicted mode-change sequence. Seeded random lives (commands started at seeded moments, exits racing "
                "them: keys, POST, SIGINT/SIGTERM, ctrl-z, resizes) and tmux robustness lives (hostile items, sizes 1x1..200x50, "
                "random actions, raw bytes, mouse reports, paste markers, resizes) are observed from outside only and each is "
                "validated by Trace_Lifecycle (mode changes = spec steps; world after exit = the state ExitVia leaves; answered "
                "GET /, no panic, gone).",
        "design_ref": "DESIGN.md §6 C14, §8",
        "note": "Crash-freedom and responsiveness are explored along generated behaviours and seeded stimuli, not proved for all "
                "inputs. SIGHUP/SIGKILL are outside the model (fzf handles SIGINT/SIGTERM). Exits during execute are deferred; "
                "become only when nothing fzf started is alive; bracketed paste followed through the byte stream only. Known "
                "findings: preview left running / temp files left at exit. Trusted: TLC, python pty / tmux as terminals, /proc.",
        "technique": "TLA+ spec + TLC exhaustive MC incl. liveness; spec-generated behaviours replayed on the real binary; trace validation of externally observed real executions",
    },
    "C02": {
        "text": "FzfAlgo/FzfAlgoV2.tla give a declarative Witness per matcher and algorithmic sub-specs; TLC proves on every "
                "(text<=5(8), pattern<=2(3)) over 6 class-covering alphabets that they agree, that results are valid, and that run-"
                "length shortening preserves witnesses. The same enumeration (4.9 M inputs thorough) with TLC's predicted "
                "matched/range/positions is replayed on algo.* in bytes and runes, withPos on/off, nil/real/5 scaled-down slabs, 3 "
                "schemes. Random texts <=300 / patterns <=12 and run-length-encoded lines >65 535 runes are judged by ValidResult.",
        "design_ref": "DESIGN.md §6 C02",
        "note": "Finite symbol alphabet bound at start-up against charClassOf / unicode / normalizeRune; admissible patterns only "
                "(lower-cased / normalised as the API requires); which valid alignment V2 reports is code-derived (validity judged); "
                "giant lines without positions: bounds and end characters only. Trusted: TLC, the harness dispatch.",
        "technique": "TLA+ spec + TLC exhaustive MC; TLC-computed cases replayed on real code; real executions judged by TLC",
    },
    "C03": {
        "text": "Scoring constants, Bonus, the plain whole-line V2 recurrence and AlignScore/BestAlign in TLA+; TLC proves the V2 score "
                "is an existing alignment's score <= best on the bounded space; Score of every matcher/variant (bytes/runes, "
                "slabs, directions, 3 schemes) equals TLC's value on the exhaustive enumeration, and on random texts <=64 / "
                "patterns <=8 judged by TLC.",
        "design_ref": "DESIGN.md §6 C03",
        "note": "Scores far below int16 saturation; boundary/equal closed formulas are code-derived. Observation (not a violation of "
                "the stated property): the V2 programme is not optimal w.r.t. calculateScore. Trusted: TLC, the harness dispatch.",
        "technique": "TLA+ spec + TLC exhaustive MC; TLC-computed cases replayed on real code; real executions judged by TLC",
    },
    "C05": {
        "text": "FzfAlgoSlab.tla: slab contents arbitrary, Call result = F(args) (Pure) model-checked over all histories of a small "
                "argument space; exhaustive cases, TLC-simulated call histories and a seeded multi-million-call scan run on "
                "poisoned slabs (0x7fff, -1, pseudo-random, stale), bytes vs runes, withPos on/off, and must equal TLC's F(args). "
                "Process level (c05_proc): fzf -f on lists vs random sub-lists under all 172 tiebreak settings, judged by TLC with "
                "the sub-list theorem of FzfRank (Ranked(sub) = Ranked(all) restricted to sub).",
        "design_ref": "DESIGN.md §6 C05",
        "note": "Slab capacity is an argument (documented fallback), contents are not; deviations shared with the reference call are "
                "deferred to C02/C03. Known finding F7 (V2 Start without positions). Trusted: TLC, the harness dispatch.",
        "technique": "TLA+ spec + TLC exhaustive MC; TLC-computed cases replayed on real code; real executions judged by TLC",
    },
    "C15": {
        "text": "FzfScreen specifies the rendition of the finder state for the comparable configuration (--no-color --no-unicode "
                "--no-hscroll --no-scrollbar, full screen): Render(state, WxH, cfg) gives every terminal row (prompt with scrolled "
                "query, info text in 5 styles with or without separator, header rows, list rows with pointer/marker, ellipsis "
                "truncation, placement per --layout / --header-first / --header-lines / --no-input). TLC model-checks placement and "
                "the documented claims on small constants (row count, width, one pointer on the current line, markers exactly on "
                "selected visible items, headers outside the list), exports configuration x geometry x state cases that are "
                "replayed into real tmux sessions (E), and judges the captured screen of every settle point of randomized real "
                "sessions (C09 stimuli plus resizes, wide/combining items included) against Render (J).",
        "design_ref": "DESIGN.md §6 C15",
        "note": "Documented layer (placement, query/counts shown, line complete or truncated with ellipsis, pointer/marker, width) is "
                "kept apart from the code-derived exact text. Colours, attributes, cursor position, spinner, preview, borders, "
                "margins, --height, multi-line items, hscroll, scrollbar are not observed. The screen is judged only at settle "
                "points (trace quiet, laid-out area = pane size, two identical captures). Trusted: TLC, tmux capture-pane, hooks.",
        "technique": "TLA+ function-shaped spec + TLC MC; exported cases replayed under tmux; capture-pane records judged by TLC",
    },
    "C11": {
        "text": "FzfAnsi.tla holds (A) the stripping scanner as an explicit state machine equal to the documented regular expression "
                "(CSI, OSC, two-character ESC sequences, SI/SO, x BS) and (B) an independent ECMA-48 SGR / OSC-8 interpreter "
                "(reset, attributes, 8/16/256/24-bit colours, carried-over state, line background) giving per-character "
                "attributes and well-formed spans. TLC checks that control-free strings are fixed points, a sequence never swallows "
                "following text, spans are within the text, ordered and disjoint. E: all byte strings <=4/5 over the control "
                "alphabet and grammar-generated interleavings with every carried state class are replayed on extractColor (text, "
                "offsets with abstract attributes, final state) and through `fzf --ansi -f ''`; J: long random grammar strings and "
                "arbitrary byte strings judged by Judge_Ansi.",
        "design_ref": "DESIGN.md §6 C11",
        "note": "Mixed ':'/';' parameter forms and truncated 38/48 sequences are outside the well-formed grammar (robustness and "
                "span well-formedness only). The harness maps tui.Color / Attr bits to abstract attributes by a table printed into "
                "each record. Trusted: TLC, that table.",
        "technique": "TLA+ spec + TLC exhaustive MC; TLC-enumerated cases replayed on real code and binary; TLC-judged random records",
    },
    "C20": {
        "text": "FzfPreview.tla models the previewer: UI actions, render loop refresh (try-send cancel on the unbuffered killChan, then "
                "overwrite the one-slot previewBox), previewer pick/start/reap, reader/ticker display, watcher select / "
                "previewCancelWait delay / kill / ctx.Done, finite and never-ending commands, exit path and process exit. The try-"
                "send is modelled exactly (taken iff the watcher is in its select). TLC checks all interleavings of <=4 user actions "
                "(3.9 M states) for at-most-one-alive, convergence at quiescence, no survivor after exit and liveness on deviation-"
                "free behaviours; the deviation configs keep counterexamples for LostCancel, LostKillAtExit and StaleAfterShow. "
                "Recorded sessions of the real binary under tmux, whose preview commands log their own invocation and hold a session "
                "lock, are validated by Trace_Preview: seeded histories of moves, edits, toggles, toggle/refresh/change-preview fired "
                "at previewer events, plus directed schedules for TLC's counterexamples. Every pv.* event must be an enabled step; at "
                "quiescence the LOG, /proc scan, GET / and captured window are checked; after abort/accept/SIGTERM a second /proc scan. Reload / reload-sync: the list is a function of the input generation, quiescence is stated on the line CONTENT under the cursor, deviation StaleAfterReload kept as a counterexample config.",
        "design_ref": "DESIGN.md §6 C20, §9 F6, Appendix B.3",
        "note": "SIGHUP/SIGKILL of fzf are not exits the property speaks of. Nothing is claimed while the preview window is hidden. "
                "Placeholder quoting is C12's subject. No in-package gates; process-level schedules instead. The untimed model does "
                "not distinguish instant from slow commands. A 'hung' previewer is given up after 30 s. Removal of killPreview at exit "
                "is only partly distinguishable from the known F6 survivor. Trusted: TLC, hook placement, /proc marker scan, tmux.",
        "technique": "TLA+ spec + TLC exhaustive MC with liveness; named deviation actions with kept counterexamples; TLC trace validation of recorded real sessions with external observations",
    },
    "C16": {
        "text": "FzfServer.tla (atom-level byte streams; connection state machine Arrive/CloseEarly/SeeEOF/Scan/Finish; Respond; "
                "action-list grammar; start rule) is model-checked over 2.5k request shapes x keys under every framing and early "
                "close for key enforcement, GET read-only, malformed => rejected without effects, framing independence and well-"
                "formed answers; TLC-exported shapes x framings with the allowed observations are replayed into the real "
                "handleHttpRequest (scripted conn, net.Pipe) and a sample over loopback TCP into startHttpServer; action lists "
                "through the POST and --bind parsers against the spec's parse; random byte streams / lists judged by Judge_Server.",
        "design_ref": "DESIGN.md §6 C16",
        "note": "CODE-DERIVED corners modelled, not demanded: partial-line final token, 10 s stall on a CRLF-terminated body, 64 KiB "
                "token limit, extra body bytes ignored, space-padded key accepted, last duplicate header wins. Cuts fall at atom "
                "boundaries only; request heads over 4096 bytes not modelled; the terminal-side consumer is bound only via "
                "processExecution (the full process path is exercised by the tmux-driven checks). Trusted: TLC, the Go projection "
                "of responses (cross-checked with net/http.ReadResponse).",
        "technique": "TLA+ spec + TLC exhaustive MC; TLC-generated cases replayed on real code (model-based conformance); TLC-judged random streams",
    },
    "C01": {
        "text": "FzfQuery.tla specifies the search syntax declaratively: tokens with `\\ ` escapes, the documented term table "
                "(fuzzy / 'exact / 'boundary' / ^prefix / suffix$ / ^equal$, !, --exact), per-term smart case and accent "
                "normalisation, | groups, --no-extended; code-derived corners kept apart. TLC model-checks theorems on a query typed "
                "term by term (documented table = total classifier; AND intersects; OR only adds; !t complements t; cache "
                "narrowing/lookup soundness). TLC exports, per (query, options), the exact set of matching line ids of fixed universes "
                "(all 1555 strings <=4 over {a,A,b,a-acute,blank,-}; all 585 strings <=3 over the operator alphabet): exhaustive "
                "raw-query classes plus -simulate samples of 1-3-term documented queries. Each is replayed on the real "
                "BuildPattern+MatchItem under {v1,v2}x{forward,backward}x{positions}; a seeded sample goes through the real binary in "
                "filter mode (sorted and +s streaming path, --tiebreak=end, --scheme=path, exit status). Seeded random longer "
                "queries/lines over the whole alphabet run on the real matcher and every record is decided by Matches in TLC.",
        "design_ref": "DESIGN.md §6 C01",
        "note": "Finite alphabet (FzfChars tables are themselves checked against unicode/algo). --nth/--with-nth/--tac/--tail not "
                "crossed here (C10/C04/C06). CODE-DERIVED: lone operators, `'a$`, bar placement, anchored terms skipping blanks at "
                "line ends, boundary rule for bodies with non-word ends, CacheKey/Cacheable/Sortable (bound to pattern.go as "
                "regression oracle). Named deviation TABQ classifies the known finding only. Trusted: TLC, harness mapping of "
                "options to BuildPattern arguments / command lines.",
        "technique": "TLA+ spec + TLC exhaustive MC of spec theorems; TLC-computed match sets replayed on real code and real binary; TLC-judged random records",
    },
    "C12": {
        "text": "FzfShell.tla models Executor.QuoteEntry (POSIX and fish escapers), escapeSingleQuote and the tmux argv/export re-quoting, "
                "a small-step POSIX shell word lexer (single/double quotes, backslash, line continuation, blanks; every other active "
                "metacharacter = HAZARD), the placeholder scanner (flags + s r n, {}, {q}, {q:N}, {N}/{N..M}, {n}, {+n}, escaped "
                "\\{..}, invalid ranges), buildPlusList and Expand; Want(t,state) is the shell reading the property demands (each "
                "unquoted placeholder contributes exactly its original texts, one word per item). TLC proves ShEval(Quote(s))=<<s>>, "
                "one-word-per-item and tmux/fish round trips for every string <=5 over 18 symbols (' \" \\ $ ` space LF * ; & | ( { } "
                "! # ~ a) and ExpansionReadsBack / EscapedStayLiteral / PlusCoversSelection / Ordinals for every (template <=3 of 31 "
                "tokens, terminal state) pair. E: all those strings and pairs are replayed on the real QuoteEntry / "
                "escapeSingleQuote / Terminal.selectItem+buildPlusList+replacePlaceholder (byte-equal to the spec) and handed to "
                "/bin/sh (dash), bash and bash --posix, whose argv must equal the words TLC computed; every inert line <=7 over "
                "{' \" \\ space LF $ a} validates the shell model itself on the same shells. J: random multi-line records through "
                "replacePlaceholder + the real Executor.ExecCommand under every shell, and re-launches of the real binary with "
                "--tmux (stand-in tmux recording argv/env), judged by Judge_Shell.",
        "design_ref": "DESIGN.md §6 C12",
        "note": "Fish escaper bound to code only (no fish binary). NUL excluded. {f}, {fzf:*}, comma range lists, --delimiter and ANSI "
                "stripping not modelled (C10/C11). Claimed only for placeholders in unquoted position and not {r} (documented). "
                "Templates whose own text has active metacharacters are compared textually only. Interactive execute/preview under a "
                "tty is covered by the tmux-driven checks. Trusted: TLC, the symbol-table mapping, the stand-in tmux script.",
        "technique": "TLA+ spec + TLC exhaustive MC; TLC-computed cases replayed on real code and on the real shells; real executions judged by TLC",
    },
    "C10": {
        "text": "FzfFields.tla (Tokenize for AWK / literal / a menu of regex delimiters, ParseRange, Select/Transform, --nth scopes with "
                "offsets in full-line characters, --with-nth / --accept-nth renditions incl. templates and StripLastDelimiter, {N} and "
                "{q:N} placeholders) is model-checked for every line <=6 over {a b , : space TAB e~} x 9 delimiters (partition, "
                "offsets, independent cut characterisation) and, in the exporting runs, for selection = documented fields for all A,B "
                "in -5..5, --nth soundness/completeness and rendition invariants. TLC-exported cases (all lines <=4 x 9 delimiters x "
                "600 nth/kind/term combos x 10 specs x 8 placeholders; shaped lines with 0..8 fields x 155 expressions; all expression "
                "strings <=6) are replayed in-package into Tokenize/ParseRange/splitNth/Transform/BuildPattern.MatchItem/"
                "nthTransformer (real option parser)/Item.acceptNth/replacePlaceholder and end-to-end through the real binary "
                "(fzf -f with --nth/--delimiter/--with-nth, default and +s path; match sets = TLC's per-line results transposed). "
                "Offsets of exact/fuzzy matches and 40k random longer inputs (multi-byte, wide) are judged by Judge_Fields.",
        "design_ref": "DESIGN.md §6 C10",
        "note": "Delimiters limited to the menu (no empty-matching regexes); terms case-sensitive, no blanks (term semantics is C01/C02). "
                "--accept-nth bound at Item.acceptNth, not via tty. CODE-DERIVED corners: literal vs regex trailing empty field, "
                "postProcessOptions dropping an all-fields --nth, -A..B rejected, last-scope-only delimiter stripping. "
                "Trusted: TLC, harness mapping of menu entries to CLI strings (checked against delimiterRegexp).",
        "technique": "TLA+ spec + TLC exhaustive MC; TLC-exported cases replayed on real code and real binary; TLC-judged random records",
    },
    "C17": {
        "text": "FzfOptions.tla models option parsing as a word-level fold Consume over the sources options-file -> $FZF_DEFAULT_OPTS "
                "-> argv (flags with --no- twins, required/optional values, =value, short attached forms, cumulative --bind/"
                "--expect/--color/--preview-window, --history+--history-size, --scheme resetting --tiebreak, per-source and final "
                "validation); FzfBind.tla models the --bind grammar (PrintBind/Meaning = documented grammar, ParseBind = the "
                "masking scanner at atom level). TLC proves ParseBind(PrintBind(b)) = Meaning(b) for all 17 delimiter forms x 16 "
                "contexts x every argument <= 3 over {a + , : ( ) blank} the form can carry, and the fold laws (layering = "
                "concatenation, last occurrence wins, earlier settings persist, errors stick) over all ordered pairs of 277 option "
                "occurrences in all source placements. Every enumerated case (config projection / keymap / error + naming source) "
                "is replayed on the real ParseOptions / parseKeymap; random bind strings and random argv/env/file triples with "
                "arbitrary values through the real binary are judged by TLC (exit 2 <=> spec invalid, stderr message, no panic).",
        "design_ref": "DESIGN.md §6 C17, §9 F4",
        "note": "Vocabulary of 28 valued options + flags; atoms chosen so no two concatenate into a name; arbitrary texts are opaque "
                "to the spec and used only where validity does not depend on content; stdin never a tty; error text compared only "
                "by source; totality over arbitrary bytes is monitored (panic check), not proven. Positional arbitration --tmux vs "
                "--height (word position across all sources) and the --tmux value grammar are modelled; every curated value class "
                "of every valued option is run once through the real binary with the no-panic assertion. Trusted: TLC, the Go projection "
                "code, python's shell quoting of J inputs.",
        "technique": "TLA+ spec + TLC exhaustive MC; TLC-enumerated/simulated cases replayed on real code; TLC as judge of recorded real executions",
    },
    "C04": {
        "text": "FzfRank.tla (Key from text/offsets/score/criteria, code-derived and 16-bit clamped; Less = keys then input index, "
                "reversed under tac; Ranked = unique sorted permutation; input order for +s / empty / only-negated queries; "
                "documented CriteriaOf/Sortable) and FzfMerger.tla (partition runs, cursors, lazily merged prefix, Get(i); pass-"
                "through locate with partial first chunk; Partition) are model-checked exhaustively (order laws, uniqueness, sub-"
                "list theorem; every partitioning x every probe sequence: Get(i)=Ranked[i], merged prefix, cursors in range; pass-"
                "through and partition arithmetic). E: TLC-enumerated buildResult cases, TLC-simulated merger behaviours and "
                "pass/partition cases replayed on buildResult / NewMerger / Merger.Get / PassMerger / sliceChunks. J: real "
                "Snapshot+Matcher.scan with partitions forced to 1,2,3,7,32 and the real binary fzf -f on lists of 0..30 000 lines "
                "under all 172 tiebreak settings x sort x tac x algo x GOMAXPROCS; Judge_Rank.tla recomputes each distinct line's "
                "key from the measured (score, offsets) and requires stdout order = Result and the documented exit status.",
        "design_ref": "DESIGN.md §6 C04, Appendix D (rank keys)",
        "note": "Match decision, score and offsets per distinct line are measured on the real matcher by an in-package harness that "
                "builds the pattern as core.go does (their correctness is C01-C03). Stdout identifies a line by its text, so order "
                "among identical lines is checked only in-package. Trusted: TLC, the harness mapping.",
        "technique": "TLA+ spec + TLC exhaustive MC; TLC-generated cases/behaviours replayed on real code; real executions judged by TLC",
    },
    "C06": {
        "text": "FzfReader.tla (stream = record lengths + unterminated flag; Read(n) for every n the OS may return, SlabRotate, Eof; "
                "items as stream byte ranges with slab regions lent) and FzfChunkList.tla (chunk heap, Push with header diversion "
                "and running index, Snapshot(tail) with trimming and chunk duplication) are model-checked exhaustively on small "
                "constants (buffer 3, slab 6, <=5 records of 0..7 bytes, all chunkings; chunk 2/3): emitted is always a prefix of "
                "Records(stream) and equals it at EOF, no slab region is lent twice or rewritten, snapshots are the last N "
                "non-header records with stream-wide indices and never change. TLC-simulated behaviours with the real "
                "64K/128K/100 constants are replayed on the real Reader.feed (scripted io.Reader, both delimiters, contents "
                "compared only after the stream is consumed, len(p) of every call compared) and the real ChunkList; random real "
                "feed() runs, runs of the real binary over a burst-written pipe (fzf -f '' [+s] [--read0] [--tail] "
                "[--header-lines] [--with-nth], up to several MB, records > 128K) and interactive tmux sessions read through "
                "--listen are judged by TLC against Records/Searchable. FzfItems.tla (item builder variants of core.Run: plain, --ansi, "
                "--with-nth with the original record kept for output) states what filter / accept / GET print for an item - the "
                "record itself whatever the display transformation - and is bound by exported blocks of all short records x "
                "--with-nth forms x delimiters x --ansi on the batch, streaming and --sync filter paths and in tmux sessions "
                "(lib/props/c06_items.py).",
        "design_ref": "DESIGN.md §6 C06, §9 F10",
        "note": "Reader/chunk constants are Go compile-time constants, so the exhaustive all-chunkings exploration is on the model "
                "only; the real code is bound with real constants on TLC-chosen boundary read sizes plus random ones. OS-faithful "
                "reads only (no data+error, no (0,nil)); CR trimming (Windows) not modelled; process-level contents are valid "
                "UTF-8; numbering observed only via GET / in interactive sessions. Trusted: TLC, the harness's content/digest "
                "identity, tmux.",
        "technique": "TLA+ spec + TLC exhaustive MC; TLC-generated behaviours replayed on real code; real executions (in-package, binary, tmux) judged by TLC",
    },
    "C19": {
        "text": "FzfWalker.tla (tree built by AddFile/AddDir/AddLinkToFile/AddLinkToDir/AddDanglingLink; Expected(roots, file/dir/"
                "follow/hidden, skip patterns) per the manual) is model-checked for exactly-once, resolves-to-entry, pruned-"
                "subtrees-disjoint, declarative completeness, option algebra and root prefix. TLC enumerates all trees up to 4 "
                "entries over {a,.h,skip,'b c','n\\nl'}, all 5-entry trees over {a,.h,skip}, a seeded 5-entry sample, times 16 "
                "option sets, 9 skip lists, 9 root sets, each with its predicted multiset. The harness materialises each tree, "
                "runs the real readFiles and, for a subset, the real binary on a pty, and the multisets are compared. Random "
                "trees up to 60 entries are judged by Judge_Walker.",
        "design_ref": "DESIGN.md §6 C19",
        "note": "Link cycles, unreadable dirs, special files, overlapping roots and Windows separators not modelled; roots-as-entry, "
                "leading-separator skip patterns and root spellings are CODE-DERIVED; 5-entry trees over the full name set are "
                "sampled. Trusted: TLC, the Go tree materialiser.",
        "technique": "TLA+ spec + TLC exhaustive MC; TLC-enumerated cases replayed on real code and binary; TLC judges random executions",
    },
    "C08": {
        "text": "FzfPipeline.tla models reader, coordinator (event box with overwrite semantics, handlers in any order), matcher "
                "(two-slot request box, merger cache, per-chunk cache with narrowing, cancellation between chunks) and terminal, "
                "one action per critical section; TLC checks exhaustively that every published result is the sequential filter of "
                "its snapshot, both caches are sound, and that at quiescence the shown list is the fresh filter of the current "
                "query (plus eventual quiescence under weak fairness); the deviation 'serve the older of two pending requests' "
                "is a named action whose counterexample is kept. Real sessions (tmux; producer writing in seeded bursts while "
                "edits, chained edits and sort toggles are POSTed) are recorded by the hooks and validated by Trace_Pipeline: "
                "each event must be an enabled protocol step, every published list and the final list must equal what a fresh "
                "`fzf --filter` yields for that query over that prefix, GET / must agree.",
        "design_ref": "DESIGN.md §6 C08, Appendix B.1",
        "note": "Yardstick = filter mode of the same binary (bound to the spec by C01/C04). Sessions do not use --tail/reload/"
                "exclude/change-nth yet. Trusted: TLC, hooks (announce-before-Set is modelled explicitly), tmux.",
        "technique": "TLA+ spec + TLC exhaustive MC with liveness; trace validation of recorded concurrent executions against the spec",
    },
    "C13": {
        "text": "Same protocol specification as C08 (FzfPipeline: published result = filter of the snapshot taken at request time, "
                "no partial publish after cancellation, cache entries only for full shared chunks); the trace validation is run on "
                "sessions where searches overlap with loading (slow producer, edits throughout) on a `go build -race` binary. "
                "Every publish while loading is compared with `fzf --filter` over exactly the snapshot prefix; cancelled scans "
                "must be followed by a newer request, never by a publish.",
        "design_ref": "DESIGN.md §6 C13, §8",
        "note": "The 'no data race' clause is not expressible in TLA+; the Go race detector runs as a monitor on the same sessions "
                "and its reports are surfaced as violations labelled monitor-found. Gate-forced cancellation points (E binding) "
                "are future work.",
        "technique": "TLA+ spec + TLC MC; trace validation of executions recorded from a race-detector build",
    },
    "C07": {
        "text": "FzfOutput.tla defines stdout (query line, expect line, print queue, selection in selection order or current line; "
                "original record, escape sequences removed under --ansi, --accept-nth field) and the exit status for every way a "
                "session can end, for --filter and for the --select-1/--exit-0 short cut; records are sequences of typed pieces so "
                "that 'original bytes', 'stripped text' and 'field N' are spec-level notions. TLC model-checks the framing "
                "invariants over all selection histories of a small session model, then judges what the real binary printed and "
                "returned: filter runs on all three code paths (sorted, streaming, unsorted non-streaming) across option "
                "combinations, auto-accept runs, and tmux-driven interactive sessions whose final editor state comes from the hook "
                "trace (how the session ends is computed by FzfEditor.Exits).",
        "design_ref": "DESIGN.md §6 C07",
        "note": "Matching abstracted to a marker piece; order of sorted filter output compared as multiset (C04 owns order); "
                "field expressions limited to single field numbers with a literal delimiter (C10 owns ranges). Trusted: TLC, tmux, hooks.",
        "technique": "TLA+ spec + TLC MC; TLC judges recorded outputs/exit codes of the real binary (filter, auto-accept, interactive)",
    },
    "C09": {
        "text": "FzfEditor.tla defines every bindable editing / navigation / selection action, the list update and the renderer's "
                "cursor-scroll clamp as operators over the state (query, cursor, yank buffer, list cursor, scroll offset, ordered "
                "selection, limit). TLC model-checks the C09 invariants exhaustively on small constants (cursor in range, cursor "
                "designates an existing result after render, selection within --multi, toggle involution, -all actions local to "
                "the current results, kill/yank round trip, selections survive list changes and vanish on reload). The real binary "
                "is then driven under tmux (POSTed action lists and chains, real key presses) with stimuli simulated by TLC from "
                "the same module plus seeded random motifs; every transition of the real terminal loop recorded by the hooks "
                "(action, list update, render, idle) is judged by TLC: post-state must equal Apply(action)(pre-state), and item "
                "texts must stay equal to the input records.",
        "design_ref": "DESIGN.md §6 C09",
        "note": "Trusted: TLC, trace hooks (state projection under the terminal mutex), tmux as terminal. Not modelled: --track, "
                "jump mode, mouse, multi-line items/--gap (sessions do not use them). Alphabet = FzfChars symbols.",
        "technique": "TLA+ spec + TLC exhaustive MC; trace validation of real executions (per-transition judge) with TLC-generated stimuli",
    },
    "C18": {
        "text": "FzfHistory.tla (file as token sequence, Load/Prev/Next/Submit/Quit with the override/modified map) is model-"
                "checked exhaustively (all behaviours for 8 initial files, limits 1..3, queries {'',a,b,c}, <=3 sessions) for "
                "the last-N / loads-stored / edits-stay-in-memory invariants; TLC-simulated behaviours with the predicted "
                "observation after every step are replayed on the real History object with a real file and compared step by "
                "step (file bytes, loaded entries, cursor, returned text).",
        "design_ref": "DESIGN.md §6 C18",
        "note": "Assumes entries are opaque strings (History never inspects content); permission errors not modelled. "
                "Trusted: TLC, the Go harness that maps spec actions to History method calls.",
        "technique": "TLA+ spec + TLC exhaustive MC; TLC-generated behaviours replayed on real code (model-based conformance)",
    },
}
