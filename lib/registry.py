"""What MANIFEST.json claims, per property."""
HOOK_COMMITS = []
NOTES = ("Every check: TLC model-checks the module's design on small constants, then binds it to /repo's current working "
         "tree (rebuilt on every run with -tags verif). Exit 2 = infrastructure problem, never a verdict.")
NOT_APPLICABLE = {}
CHECKS = {
    "C18": {
        "text": "FzfHistory.tla (file as token sequence, Load/Prev/Next/Submit/Quit with the override/modified map) is model-"
                "checked exhaustively (all behaviours for 8 initial files, limits 1..3, queries {'',a,b,c}, <=3 sessions) for "
                "the last-N / loads-stored / edits-stay-in-memory invariants; TLC-simulated behaviours with the predicted "
                "observation after every step are replayed on the real History object with a real file and compared step by "
                "step (file bytes, loaded entries, cursor, returned text).",
        "design_ref": "DESIGN.md §6 C18",
        "note": "Assumes entries are opaque strings (History never inspects content); permission errors not modelled. "
                "Trusted: TLC, the Go harness that maps spec actions to History method calls.",
        "technique": "TLA+ spec + TLC exhaustive MC; TLC-generated behaviours replayed on real code (model-based conformance)",
    },
}
